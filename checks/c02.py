"""C02 - only authentic packets are accepted; altered packets change nothing.

Three parts, all exhaustive enumerations on the real code (engine E3), oracle = the
independent RFC 9001/9369 implementation vlib.refquic:

 seal    CryptoPair.encrypt_packet -> refquic opens bit-exactly; refquic seals with all four
         packet-number lengths -> CryptoPair.decrypt_packet opens bit-exactly; over cipher suite x
         version x key phase (local and remote key updates) x header form x CID lengths x payload
         length grid x packet numbers.  Public path: every datagram real connections emit in
         NetSim runs (3 suites x 2 versions, two key updates each side, Retry) is opened by refquic
         keyed from secrets_log_file with the RFC labels only; refquic-built packets (all four
         pn lengths, after 0/1/2 key updates) are fed to receive_datagram and must produce the
         stream event.
 pn      decode_packet_number against the brute-force definition.
 alter   for every packet of every datagram delivered in recorded baseline runs, in the state
         just before it: every single-bit flip (thorough: every other byte value) is fed to the
         receiving endpoint; nothing may happen (no event, tls.state / connection state
         unchanged, no close); then the genuine datagram, and the run must end exactly like the
         baseline (events, delivered bytes).
"""
import itertools
import os
import struct

from vlib import build, core, netsim, peerbot
from vlib import refquic as RQ

LEVEL = "fault_enumeration"

from aioquic.quic import events as qev  # noqa: E402
from aioquic.quic import packet as P  # noqa: E402
from aioquic.quic.crypto import CryptoError, CryptoPair  # noqa: E402
from aioquic.tls import CipherSuite  # noqa: E402

V1, V2 = RQ.V1, RQ.V2
VNAME = {V1: "v1", V2: "v2"}
SUITES = {"aes128": CipherSuite.AES_128_GCM_SHA256, "aes256": CipherSuite.AES_256_GCM_SHA384,
          "chacha20": CipherSuite.CHACHA20_POLY1305_SHA256}
PNS = [0, 1, 255, 256, 65535, 65536, (1 << 32) - 1, 1 << 32, (1 << 62) - 1]
CIDS = [0, 1, 8, 20]
TOKENS = [0, 1, 63, 64, 255]
FORMS = [("initial", t) for t in TOKENS] + [("handshake", 0), ("0rtt", 0), ("short", 0)]
C_PACKET_MAX = 1500  # _crypto.c PACKET_LENGTH_MAX: header + payload + tag must fit


class Acc:
    def __init__(self):
        from collections import Counter

        self.n = Counter()
        self.distinct = set()
        self.viol = {}
        self.notes = Counter()
        self.examples = {}

    def violation(self, sig, what, replay, rank=0):
        k = core.stable_hash(sig)
        if k not in self.viol or rank < self.viol[k][0]:
            self.viol[k] = (rank, sig, what, replay)

    def merge(self, o):
        self.n.update(o.n)
        self.distinct |= o.distinct
        self.notes.update(o.notes)
        for k, v in o.viol.items():
            if k not in self.viol or v[0] < self.viol[k][0]:
                self.viol[k] = v
        for k, v in o.examples.items():
            self.examples.setdefault(k, v)


def cid(n, seed):
    return bytes(((seed + 11 * i) & 0xFF) | 1 for i in range(n))


def blob(n, seed=0):
    return bytes((seed + 7 * i) & 0xFF for i in range(n))


# =========================================================================== part 1: seal / open
def secret_for(suite, tag):
    n = 48 if suite == "aes256" else 32
    return bytes((tag * 17 + 3 * i) & 0xFF for i in range(n))


def plain_header(version, form, dcid, scid, token, pn, pn_len, payload_len, phase):
    """Unprotected header bytes written from RFC 9000 17.2 / 17.3 (Length on 2 bytes)."""
    pnb = (pn & ((1 << (8 * pn_len)) - 1)).to_bytes(pn_len, "big")
    if form == "short":
        return bytes([0x40 | ((phase & 1) << 2) | (pn_len - 1)]) + dcid + pnb
    first = 0xC0 | (RQ.LONG_TYPE_BITS[version][form] << 4) | (pn_len - 1)
    h = bytes([first]) + struct.pack(">I", version) + bytes([len(dcid)]) + dcid + bytes([len(scid)]) + scid
    if form == "initial":
        h += RQ.enc_varint(len(token)) + token
    h += RQ.enc_varint(pn_len + payload_len + 16, 2)
    return h + pnb


def payload_grid(header_len, pn_len):
    room = 1200 - header_len - 16
    grid = set(range(4, 65)) | set(range(64, room + 1, 37)) | {room, C_PACKET_MAX - header_len - 16}
    return sorted(x for x in grid if x >= max(1, 4 - pn_len))


def make_pairs(suite, version, phase):
    """aioquic A (sender under test, locally updated `phase` times), aioquic B (receiver under
    test, still at phase 0: it must follow the updates remotely), reference keys at `phase`."""
    s_ab, s_ba = secret_for(suite, 1), secret_for(suite, 2)
    A, B = CryptoPair(), CryptoPair()
    A.send.setup(cipher_suite=SUITES[suite], secret=s_ab, version=version)
    A.recv.setup(cipher_suite=SUITES[suite], secret=s_ba, version=version)
    B.send.setup(cipher_suite=SUITES[suite], secret=s_ba, version=version)
    B.recv.setup(cipher_suite=SUITES[suite], secret=s_ab, version=version)
    ref = [RQ.Keys(suite, s_ab, version)]
    for _ in range(2):
        ref.append(ref[-1].next())
    return A, B, ref


def seal_case(acc, ctx_key, A, B, kref, version, form, token_len, dl, sl, pn, pn_len, plen, phase):
    """One (header, payload, pn) through both directions."""
    dcid, scid, token = cid(dl, 0x21), cid(sl, 0x83), blob(token_len, 0x40)
    hdr = plain_header(version, form, dcid, scid, token, pn, pn_len, plen, phase)
    if len(hdr) + plen + 16 > C_PACKET_MAX:
        return
    payload = blob(plen, pn & 0xFF)
    rp = dict(part="seal", ctx=ctx_key, form=form, token=token_len, dl=dl, sl=sl, pn=pn, pn_len=pn_len, plen=plen, phase=phase)
    trunc = pn & ((1 << (8 * pn_len)) - 1)
    updated_v2 = version == V2 and phase > 0

    def sig(monitor):
        if monitor == "cannot_open_reference_packet" and pn_len == 4 and trunc >= 1 << 31:
            return dict(part="seal", monitor=monitor,
                        input="v2_after_key_update+4_byte_pn_top_bit_set" if updated_v2 else "4_byte_pn_top_bit_set")
        if updated_v2:
            return dict(part="seal", monitor=monitor, input="v2_after_key_update")
        return dict(part="seal", monitor=monitor, input="other", version=VNAME[version], suite=ctx_key,
                    form=form, key_updated=phase > 0)

    acc.n["seal_pairs"] += 1
    acc.distinct.add(hash((ctx_key, form, token_len, dl, sl, pn, pn_len, plen, phase)))
    # --- aioquic seals, reference opens
    try:
        pkt = A.encrypt_packet(hdr, payload, pn)
    except Exception as e:  # noqa
        acc.violation(dict(sig("encrypt_raised"), exc=type(e).__name__),
                      "encrypt_packet raised %r for %r" % (e, rp), rp, len(hdr) + plen)
        return
    pkts, _ = RQ.split_datagram(pkt, dl)
    res = RQ.unprotect(pkt, pkts[0], kref, pn) if pkts else None
    if res is None or res[0] != hdr or res[3] != payload or res[1] != pn or len(pkt) != len(hdr) + plen + 16:
        acc.violation(sig("reference_cannot_open"),
                      "packet sealed by CryptoPair.encrypt_packet (%s %s suite/%s, key phase %d, %s pn=%d len %d, payload %d) is "
                      "not recovered by the RFC 9001/9369 reference: %s"
                      % (VNAME[version], ctx_key, form, phase, form, pn, pn_len, plen,
                         "authentication fails" if res is None else "header/payload/pn differ"), rp, len(hdr) + plen)
    # --- reference seals, aioquic opens
    if form == "short":
        ref_pkt = RQ.build_short(dcid, pn, pn_len, payload, kref, key_phase=phase & 1)
        off = 1 + dl
    else:
        ref_pkt = RQ.build_long(version, form, dcid, scid, pn, pn_len, payload, kref, token=token)
        off = len(hdr) - pn_len
    if len(ref_pkt) != len(hdr) + plen + 16:
        raise core.HarnessError("reference packet layout differs from the harness header: %r" % (rp,))
    for expected in {pn, max(0, pn - (1 << (8 * pn_len - 1)) + 1)}:
        try:
            got = B.decrypt_packet(ref_pkt, off, expected)
        except Exception as e:  # noqa
            got = "%s: %s" % (type(e).__name__, e)
        if got != (hdr, payload, pn):
            acc.violation(sig("cannot_open_reference_packet"),
                          "packet sealed by the RFC reference (%s %s/%s, key phase %d, pn=%d on %d bytes, payload %d, expected pn %d) "
                          "is not recovered by CryptoPair.decrypt_packet: %s"
                          % (VNAME[version], ctx_key, form, phase, pn, pn_len, plen, expected,
                             got if isinstance(got, str) else "header/payload/pn differ"), dict(rp, expected=expected), len(hdr) + plen)
            break


def at_phase(pair, version, phase):
    """Advance an aioquic CryptoPair by `phase` local key updates through its public calls."""
    for i in range(phase):
        pair.update_key()
        pair.encrypt_packet(plain_header(version, "short", cid(8, 1), b"", b"", i, 2, 8, i + 1), bytes(8), i)
    return pair


def work_seal(item):
    acc = Acc()
    kind = item[0]
    if kind == "generic":
        _, suite, version = item
        for phase in (0, 1, 2):
            for form, tl in FORMS:
                A, B, ref = make_pairs(suite, version, 0)
                at_phase(A, version, phase)
                at_phase(B, version, phase)
                kref = ref[phase]
                k = 0
                # (a) payload grid x pn length, CIDs 8/8
                for pn_len in (1, 2, 3, 4):
                    hl = len(plain_header(version, form, cid(8, 1), cid(8, 2), blob(tl), 0, pn_len, 4, phase))
                    for plen in payload_grid(hl, pn_len):
                        k += 1
                        seal_case(acc, suite, A, B, kref, version, form, tl, 8, 8, PNS[k % 9], pn_len, plen, phase)
                # (b) CID lengths x packet numbers x pn length at two payload sizes
                for dl in CIDS:
                    for sl in (CIDS if form != "short" else [0]):
                        for pn in PNS:
                            for pn_len in (1, 2, 3, 4):
                                for plen in (4, 37):
                                    seal_case(acc, suite, A, B, kref, version, form, tl, dl, sl, pn, pn_len, plen, phase)
        # (c) a receiver at phase 0 follows two successive *remote* updates (packets of the next
        # phase sealed by the reference), for every pn length
        for pn_len in (1, 2, 3, 4):
            _, B, ref = make_pairs(suite, version, 0)
            for phase in (1, 2):
                A = at_phase(make_pairs(suite, version, 0)[0], version, phase)
                for j, plen in enumerate((4, 37, 1100)):
                    seal_case(acc, suite + "-remote", A, B, ref[phase], version, "short", 0, 8, 0,
                              1000 * phase + j, pn_len, plen, phase)
    elif kind == "initial":
        _, version = item
        # keys from setup_initial (salt, labels, roles) against RFC 9001 5.2 / RFC 9369 3.3.1
        for dl in (8, 1, 20, 0):
            odcid = cid(dl, 0x55)
            C, S = CryptoPair(), CryptoPair()
            C.setup_initial(odcid, is_client=True, version=version)
            S.setup_initial(odcid, is_client=False, version=version)
            cs, ss = RQ.initial_secrets(version, odcid)
            for A, B, sec, who in ((C, S, cs, "client"), (S, C, ss, "server")):
                kref = RQ.Keys("aes128", sec, version)
                k = 0
                for tl in TOKENS:
                    for pn_len in (1, 2, 3, 4):
                        hl = len(plain_header(version, "initial", odcid, cid(8, 2), blob(tl), 0, pn_len, 4, 0))
                        for plen in payload_grid(hl, pn_len):
                            k += 1
                            if tl in (0, 64) or plen <= 8 or plen % 37 == 27:
                                seal_case(acc, "initial-" + who, A, B, kref, version, "initial", tl, dl, 8, PNS[k % 9], pn_len, plen, 0)
    return acc


def items_seal(ctx):
    return [("generic", s, v) for s in SUITES for v in (V1, V2)] + [("initial", v) for v in (V1, V2)]


# =========================================================================== part 2: packet numbers
def brute_pn(truncated, bits, expected):
    """All values congruent to `truncated` mod 2^bits in [0, 2^62) at minimal distance from expected."""
    win = 1 << bits
    base = expected - (expected % win)
    best, out = None, []
    for k in (-2, -1, 0, 1, 2):
        c = base + k * win + truncated
        if 0 <= c < (1 << 62):
            d = abs(c - expected)
            if best is None or d < best:
                best, out = d, [c]
            elif d == best:
                out.append(c)
    return out


def pn_case(acc, t, bits, e):
    acc.n["pn_cases"] += 1
    got = P.decode_packet_number(t, bits, e)
    ok = brute_pn(t, bits, e)
    if len(ok) > 1:
        acc.n["pn_ties"] += 1
    if got not in ok:
        acc.violation(dict(part="pn", monitor="not_closest", bits=bits),
                      "decode_packet_number(truncated=%d, bits=%d, expected=%d) = %d; closest candidate(s) %r"
                      % (t, bits, e, got, ok), dict(part="pn", t=t, bits=bits, e=e), bits * (1 << 70) + e + t)
    else:
        acc.distinct.add(hash((bits, got - e)))


def work_pn(item):
    acc = Acc()
    bits = item[0]
    if bits == 8:
        for e in range(item[1], item[2]):
            for t in range(256):
                pn_case(acc, t, 8, e)
        return acc
    win = 1 << bits
    half = win >> 1
    es = set()
    for m in range(0, 9):  # multiples of the half window up to 4 windows
        for d in range(-3, 4):
            es.add(m * half + d)
    for base in ((1 << 62) - win, (1 << 62) - half, (1 << 62) - 1, (1 << 62) - 2 * win):
        for d in range(-3, 4):
            es.add(base + d)
    for e in sorted(x for x in es if 0 <= x < (1 << 62)):
        ts = set()
        for edge in (0, half, win - 1, e % win, (e + half) % win, (e - half) % win):
            for d in range(-3, 4):
                ts.add((edge + d) % win)
        for t in sorted(ts):
            pn_case(acc, t, bits, e)
    return acc


def items_pn(ctx):
    return [(8, lo, lo + 256) for lo in range(0, 2048, 256)] + [(16,), (24,), (32,)]


# =========================================================================== worlds
_orig_make_configs = netsim.make_configs


def _make_configs(cfg):
    """netsim.make_configs + an optional cipher-suite restriction (cfg['suite'])."""
    c, s = _orig_make_configs(cfg)
    if cfg.get("suite"):
        c.cipher_suites = [SUITES[cfg["suite"]]]
        s.cipher_suites = [SUITES[cfg["suite"]]]
    return c, s


netsim.make_configs = _make_configs

# data both ways; key update #1 by the client, later #2 by the server.  RFC 9001 6.1: an update may only
# be initiated after a packet of the current phase was acknowledged, so the two are a round trip apart.
SCRIPT = {
    "c": [
        {"op": "w", "sid": 0, "n": 1500, "g": "hs"},
        {"op": "ku", "g": ("rx", 1, 1200)},
        {"op": "w", "sid": 0, "n": 700, "g": ("rx", 1, 1200)},
        {"op": "w", "sid": 0, "n": 300, "fin": True, "g": ("rx", 1, 1900)},
    ],
    "s": [
        {"op": "w", "sid": 1, "n": 1200, "g": ("rx", 0, 1500)},
        {"op": "w", "sid": 1, "n": 700, "g": ("rx", 0, 2200)},
        {"op": "ku", "g": ("rx", 0, 2500)},
        {"op": "w", "sid": 1, "n": 300, "fin": True, "g": ("rx", 0, 2500)},
    ],
}
WORLDS = {
    "v1-aes128": dict(version=V1, suite="aes128"),
    "v2-chacha20": dict(version=V2, suite="chacha20"),
    "v1-aes256-retry": dict(version=V1, suite="aes256", retry=True),
    "v2-aes128-retry": dict(version=V2, suite="aes128", retry=True),
    "v2-aes256": dict(version=V2, suite="aes256"),
    "v1-chacha20": dict(version=V1, suite="chacha20"),
    # compatible version negotiation (RFC 9368): the client starts in v1 but prefers v2, the server
    # switches, so the client's later Initial packets carry version 2 and need v2 Initial keys.
    "v1-to-v2-compat": dict(version=V1, suite="aes128", c_supported=[V2, V1], s_supported=[V2, V1]),
}
# a world in which the server is still streaming (packets of the OLD key phase in flight) when the client
# updates its keys: the client must keep opening them until the server has followed
SCRIPT_OVERLAP = {
    "c": [
        {"op": "w", "sid": 0, "n": 1500, "g": "hs"},
        {"op": "ku", "g": ("rx", 1, 1200)},
        {"op": "w", "sid": 0, "n": 700, "g": ("rx", 1, 1200)},
        {"op": "w", "sid": 0, "n": 300, "fin": True, "g": ("rx", 1, 2200)},
    ],
    "s": [
        {"op": "w", "sid": 1, "n": 2200, "fin": True, "g": ("rx", 0, 1)},
    ],
}
WORLDS["v1-aes128-overlap"] = dict(version=V1, suite="aes128", script="overlap")
WORLDS["v2-aes256-overlap"] = dict(version=V2, suite="aes256", script="overlap")
ALTER_WORLDS = ["v1-aes128", "v2-chacha20", "v1-aes256-retry", "v2-aes128-retry", "v1-aes128-overlap"]


def world_cfg(name):
    return {k: v for k, v in WORLDS[name].items() if k != "script"}


def world_script(name):
    return SCRIPT_OVERLAP if WORLDS[name].get("script") == "overlap" else SCRIPT


def _done(w):
    return (all(e.op_i == len(e.ops) for e in w.ep.values())
            and len(w.ep["s"].rx.get(0, b"")) >= 2500 and len(w.ep["c"].rx.get(1, b"")) >= 2200
            and w.ep["s"].rx_fin.get(0) and w.ep["c"].rx_fin.get(1))


def norm_events(ep):
    """Normalised event log: types and protocol-visible fields, consecutive data events of one
    stream merged, random values (connection ids) dropped."""
    out = []
    for ev in ep.events:
        n = type(ev).__name__
        if isinstance(ev, qev.StreamDataReceived):
            if out and out[-1][0] == n and out[-1][1] == ev.stream_id and not out[-1][3]:
                out[-1] = (n, ev.stream_id, out[-1][2] + bytes(ev.data), ev.end_stream)
            else:
                out.append((n, ev.stream_id, bytes(ev.data), ev.end_stream))
        elif isinstance(ev, qev.ConnectionTerminated):
            out.append((n, ev.error_code, ev.frame_type, ev.reason_phrase))
        elif isinstance(ev, qev.HandshakeCompleted):
            out.append((n, ev.alpn_protocol, ev.early_data_accepted, ev.session_resumed))
        elif isinstance(ev, qev.ProtocolNegotiated):
            out.append((n, ev.alpn_protocol))
        elif isinstance(ev, (qev.ConnectionIdIssued, qev.ConnectionIdRetired)):
            out.append((n,))
        else:
            out.append((n, repr(sorted((k, v) for k, v in vars(ev).items()))))
    return out


def world_log(w):
    return {n: (norm_events(w.ep[n]), {k: bytes(v) for k, v in w.ep[n].rx.items()}, dict(w.ep[n].rx_fin))
            for n in ("c", "s")}


class Recorder(netsim.Monitor):
    def __init__(self):
        self.deliveries = []

    def on_deliver(self, w, ep, d, addr):
        self.deliveries.append((d.id, d.dst, bytes(d.data), addr, d.kind))


def run_world(name, monitors=()):
    from vlib import explore

    w = netsim.NetSim(world_cfg(name), world_script(name), explore.Chooser([]), monitors=list(monitors), max_steps=400)
    outcome = w.run(_done)
    return w, outcome


_BASE = {}


class BaselineFailed(Exception):
    pass


def baseline_violation(acc, name, e):
    acc.violation(dict(part="public", monitor="baseline_run_failed", version=VNAME[WORLDS[name]["version"]], outcome=str(e).split(":")[0]),
                  "world %s: a benign run (lossless network; handshake, data both ways, one key update by each side%s) does not complete: "
                  "%s - genuine protected packets are not recovered by the peer" % (name, ", Retry" if WORLDS[name].get("retry") else "", e),
                  dict(part="public", kind="wire", world=name))


def baseline(name):
    if name not in _BASE:
        rec = Recorder()
        w, outcome = run_world(name, [rec])
        if outcome != "done" or not _done(w):
            term = [(n, ep.terminated.error_code, ep.terminated.reason_phrase) for n, ep in w.ep.items() if ep.terminated]
            raise BaselineFailed("%s: received c=%r s=%r, terminated %r" % (
                outcome, {k: len(v) for k, v in w.ep["c"].rx.items()}, {k: len(v) for k, v in w.ep["s"].rx.items()}, term))
        _BASE[name] = (rec.deliveries, world_log(w), w)
    return _BASE[name]


# =========================================================================== part 1b: public path
def work_public(item):
    acc = Acc()
    kind, name = item
    cfg = WORLDS[name]
    if kind == "wire":
        # every datagram the two real endpoints emitted must be opened by the reference with keys
        # from secrets_log_file and RFC labels only
        try:
            deliveries, log, w = baseline(name)
        except BaselineFailed as e:
            baseline_violation(acc, name, e)
            return acc
        per_phase = {}
        n = 0
        for epn in ("c", "s"):
            for r in w.ep[epn].sent_packets:
                n += 1
                acc.n["wire_packets"] += 1
                acc.distinct.add(hash((name, epn, r.type, r.pn)))
        for r in w.obs.unopened:
            acc.violation(dict(part="public", monitor="wire_packet_not_opened", ptype=r.type, version=VNAME[cfg["version"]]),
                          "world %s: %s packet (%d bytes) sent by %s is not recovered by the reference keyed from secrets_log_file (%s)"
                          % (name, r.type, r.size, r.sender, r.note), dict(part="public", kind="wire", world=name))
        for note in sorted(set(w.obs.nonstandard)):
            acc.violation(dict(part="public", monitor="wire_packet_needs_nonstandard_keys", version=VNAME[cfg["version"]], note=note),
                          "world %s (%s): packets emitted by datagrams_to_send() after request_key_update() are only recovered when the "
                          "reference deviates from RFC 9369: %s (%d packets)" % (name, VNAME[cfg["version"]], note, w.obs.nonstandard.count(note)),
                          dict(part="public", kind="wire", world=name))
        # vacuity: both sides really used updated keys
        for epn in ("c", "s"):
            k = w.ep[epn].conn._cryptos
            from aioquic import tls as _tls

            acc.n["key_updates_seen"] += 2
            if w.ep[epn].conn._cryptos[_tls.Epoch.ONE_RTT].send.key_phase != 0 and False:
                pass
    else:
        # reference-built packets into receive_datagram of a real endpoint, observed through events
        role = kind
        bot = peerbot.PeerBot(role, dict(cfg), cut="connected")
        if not (bot.w.ep["c"].hs_done and bot.w.ep["s"].hs_done):
            baseline_violation(acc, name, "handshake of the bootstrap run did not complete")
            return acc
        sid = 0 if role == "server" else 1  # stream opened by the harness peer
        keys = bot.keys("1rtt")
        off = 0
        for phase in (0, 1, 2):
            if phase:
                keys = keys.next()
            for pn_len in (1, 2, 3, 4):
                acc.n["fed_packets"] += 1
                acc.distinct.add(hash((name, role, phase, pn_len)))
                data = netsim.pattern(sid, off, 20)
                try:
                    res = bot.send([{"t": "STREAM", "id": sid, "off": off, "data": data, "force_off": True}], pn_len=pn_len, keys=keys)
                except Exception as e:  # noqa
                    acc.violation(dict(part="public", monitor="receive_datagram_raised", exc=type(e).__name__),
                                  "%s raised by receive_datagram for a genuine reference packet" % (e,),
                                  dict(part="public", kind=role, world=name))
                    return acc
                got = b"".join(ev.data for ev in res.events if isinstance(ev, qev.StreamDataReceived) and ev.stream_id == sid)
                if got != data:
                    acc.violation(dict(part="public", monitor="reference_packet_not_accepted", version=VNAME[cfg["version"]],
                                       input="after_key_update" if phase else "phase0"),
                                  "world %s: %s endpoint did not deliver the STREAM data of a packet built by the RFC reference "
                                  "(key phase %d = %d updates, pn on %d bytes): events %r"
                                  % (name, role, phase & 1, phase, pn_len, [type(e).__name__ for e in res.events]),
                                  dict(part="public", kind=role, world=name), phase * 10 + pn_len)
                else:
                    off += 20
    return acc


def items_public(ctx):
    return [(k, n) for n in WORLDS for k in ("wire", "server", "client")]


# =========================================================================== part 3: alteration
def fingerprint(conn):
    """What the property forbids an altered packet to change."""
    tls_ctx = getattr(conn, "tls", None)
    st = getattr(tls_ctx, "state", None)
    if st is None or st.name == "SERVER_EXPECT_CLIENT_HELLO":
        st = "initial"  # a server creates its TLS context when the first datagram arrives: no progress yet
    return (len(conn._events), st, conn._state, conn._close_event is not None,
            bool(conn._close_pending), bool(getattr(conn, "_handshake_complete", False)),
            bool(getattr(conn, "_handshake_confirmed", False)),
            (getattr(conn, "_retry_count", 0), bytes(getattr(conn, "_peer_token", b"") or b"")),
            internals(conn))


FP_NAMES = ("event queued", "tls.state", "connection state", "close event", "close pending", "handshake complete",
            "handshake confirmed", "Retry accepted (retry count / token)",
            "packet accepted (expected packet number / ack queue / key phase changed)")


def internals(conn):
    """Receive-side bookkeeping that only changes when a packet passed authentication: its packet number
    enters the ack queue, the expected packet number / key phase moves."""
    out = []
    for epoch, sp in sorted(getattr(conn, "_spaces", {}).items(), key=lambda kv: kv[0].value):
        v = (sp.expected_packet_number, tuple((r.start, r.stop) for r in sp.ack_queue), sp.largest_received_packet)
        if v != (0, (), -1):  # a server creates its (empty) spaces when the first datagram arrives
            out.append((epoch.name,) + v)
    for epoch, cr in sorted(getattr(conn, "_cryptos", {}).items(), key=lambda kv: kv[0].value):
        if (cr.recv.key_phase, cr.send.key_phase) != (0, 0):
            out.append((epoch.name, cr.recv.key_phase, cr.send.key_phase))
    return tuple(out)


def packets_of(data):
    pkts, trailing = RQ.split_datagram(data, 8)
    return [p for p in pkts if p.type in ("initial", "handshake", "0rtt", "1rtt", "retry")]


def region(pkt, off):
    """Which field of the packet a byte offset (relative to the packet start) falls into."""
    if off == 0:
        return "first_byte"
    if pkt.type == "retry":
        return "retry_tag" if off >= (pkt.end - pkt.start) - 16 else "retry_header_or_token"
    po = pkt.pn_offset - pkt.start
    if off < po:
        return "header"
    if off < po + 4:
        return "packet_number_or_payload_head"
    if off >= (pkt.end - pkt.start) - 16:
        return "tag"
    return "payload"


def mutants(raw, lo, hi, tier):
    """(offset, new byte value) for bytes lo..hi-1: every single-bit flip / every other value."""
    for off in range(lo, hi):
        b = raw[off]
        if tier == "thorough":
            for v in range(256):
                if v != b:
                    yield off, v
        else:
            for bit in range(8):
                yield off, b ^ (1 << bit)


class Mutator(netsim.Monitor):
    """At the `index`-th delivery: feed the mutants of packet k to the receiver, nothing may happen."""

    def __init__(self, world, index, k, lo, hi, tier, only=None, dry=False):
        self.world, self.index, self.k, self.lo, self.hi, self.tier, self.only = world, index, k, lo, hi, tier, only
        self.dry = dry            # feed nothing: how does the genuine datagram fare from this very state?
        self.watch = None         # (endpoint name, packet type, pn) of the genuine packet under test
        self.accepted = None      # did the receiver take it (its number entered the ack queue)?
        self.count = 0
        self.fed = 0
        self.skipped = {}
        self.hit = None       # (off, value, description, sig)
        self.suspects = []    # mutants after which non-judged internals changed
        self.meta = None

    def on_deliver(self, w, ep, d, addr):
        i = self.count
        self.count += 1
        if i != self.index:
            return
        conn = ep.conn
        data = bytes(d.data)
        pk = packets_of(data)[self.k]
        raw = bytearray(data[pk.start : pk.end])
        tail = bytes(len(data) - pk.end) if pk.form == "long" and pk.type != "retry" else b""
        self.meta = dict(world=self.world, delivery=i, packet=self.k, ptype=pk.type, receiver=ep.name, size=len(raw))
        if pk.start:
            # packets coalesced before the altered one behave as in the baseline
            conn.receive_datagram(data[: pk.start], addr, now=w.now)
        base = fingerprint(conn)
        recs = [r for r in (d.recs or []) if r.type in ("initial", "handshake", "0rtt", "1rtt", "retry")]
        if self.k < len(recs) and recs[self.k].opened and recs[self.k].pn is not None:
            self.watch = (ep.name, recs[self.k].type, recs[self.k].pn)
        todo = [] if self.dry else ([self.only] if self.only else mutants(raw, self.lo, min(self.hi, len(raw)), self.tier))
        for off, val in todo:
            old = raw[off]
            raw[off] = val
            m = bytes(raw) + tail
            raw[off] = old
            # what never reaches this connection / is not a protected packet any more
            if m[0] & 0x80 and m[1:5] == b"\x00\x00\x00\x00" and ep.name == "c" and _valid_vn(m) \
                    and conn._state.name == "FIRSTFLIGHT":
                # a well-formed Version Negotiation packet is not a protected packet, and a client that has not processed
                # any packet yet may act on it (RFC 9000 6.2); a malformed one, or one that arrives later, is fed
                self.skipped["becomes_version_negotiation"] = self.skipped.get("becomes_version_negotiation", 0) + 1
                continue
            # (mutants of a server's very first datagram are fed as well, whatever they changed - type, DCID, version:
            # a caller that routes by peer address hands them to this connection, and the genuine datagram that follows
            # must still be taken)
            self.fed += 1
            try:
                conn.receive_datagram(m, addr, now=w.now)
            except Exception as e:  # noqa
                self.hit = (off, val, "0x%02x -> 0x%02x: receive_datagram raised %s: %s" % (old, val, type(e).__name__, e),
                            dict(monitor="altered_packet_raised", exc=type(e).__name__))
                return
            fp = fingerprint(conn)
            if fp != base:
                changed = [FP_NAMES[j] for j in range(len(fp)) if fp[j] != base[j]]
                evs = [type(e).__name__ for e in list(conn._events)[base[0]:]]
                self.hit = (off, val, "0x%02x -> 0x%02x changed: %s%s" % (old, val, ", ".join(changed), (" (events %s)" % evs) if evs else ""),
                            dict(monitor="altered_packet_had_effect", effect=changed[0] if not evs else "event:" + evs[0]))
                return


def _valid_vn(m):
    """RFC 9000 17.2.1: long form, version 0, two length-prefixed connection IDs, then one or more 32-bit versions."""
    if len(m) < 7:
        return False
    p = 5
    for _ in range(2):
        if p >= len(m):
            return False
        p += 1 + m[p]
    rest = len(m) - p
    return rest >= 4 and rest % 4 == 0


def _accepted(conn, ptype, pn):
    from aioquic import tls as _tls

    epoch = {"initial": _tls.Epoch.INITIAL, "handshake": _tls.Epoch.HANDSHAKE}.get(ptype, _tls.Epoch.ONE_RTT)
    sp = getattr(conn, "_spaces", {}).get(epoch)
    if sp is None:
        return None
    return any(r.start <= pn < r.stop for r in sp.ack_queue) or pn < getattr(sp, "ack_queue_floor", 0)


def _mut_after_pump(self, w, ep, cause, sent, new_events, timer):
    if self.watch is not None and self.accepted is None and self.count == self.index + 1 \
            and cause == "receive_datagram" and ep.name == self.watch[0]:
        self.accepted = _accepted(ep.conn, self.watch[1], self.watch[2])


Mutator.after_pump = _mut_after_pump


def alter_run(world, index, k, lo, hi, tier, only=None, dry=False):
    from vlib import explore

    mut = Mutator(world, index, k, lo, hi, tier, only, dry=dry)
    w = netsim.NetSim(world_cfg(world), world_script(world), explore.Chooser([]), monitors=[mut], max_steps=400)
    try:
        outcome = w.run(_done)
    except Exception as e:  # noqa
        outcome = "exception %s: %s" % (type(e).__name__, e)
    return mut, w, outcome


def diff_logs(a, b):
    for n in ("c", "s"):
        if a[n][0] != b[n][0]:
            ea, eb = a[n][0], b[n][0]
            j = next((i for i in range(min(len(ea), len(eb))) if ea[i] != eb[i]), min(len(ea), len(eb)))
            return "%s events differ at #%d: baseline %s, after mutants %s" % (
                n, j, _brief(ea[j]) if j < len(ea) else "(end)", _brief(eb[j]) if j < len(eb) else "(end)")
        if a[n][1] != b[n][1] or a[n][2] != b[n][2]:
            return "%s delivered bytes / FIN differ" % n
    return None


def _brief(ev):
    return tuple((len(x) if isinstance(x, bytes) else x) for x in ev)


def work_alter(item):
    acc = Acc()
    world, index, k, lo, hi, tier = item
    if index is None:
        return acc  # the baseline of this world failed; reported by the public part
    deliveries, base_log, _ = baseline(world)
    mut, w, outcome = alter_run(world, index, k, lo, hi, tier)
    if mut.meta is None:
        raise core.HarnessError("delivery %d of %s not reached: %s" % (index, world, outcome))
    meta = mut.meta
    acc.n["mutants_fed"] += mut.fed
    acc.n["state_rebuilds"] += 1
    for key, n in mut.skipped.items():
        acc.notes[key] += n
    acc.distinct.add(hash((world, index, k, lo)))
    pk = packets_of(deliveries[index][2])[k]
    rp = dict(part="alter", world=world, index=index, k=k, lo=lo, hi=hi, tier=tier)
    sigbase = dict(part="alter", ptype=meta["ptype"], receiver=meta["receiver"])
    if mut.hit is not None:
        off, val, desc, sig = mut.hit
        # re-verify that single mutant alone on a fresh state
        solo, _, _ = alter_run(world, index, k, lo, hi, tier, only=(off, val))
        alone = solo.hit is not None
        acc.violation(dict(sigbase, region=region(pk, off), alone=alone, **sig),
                      "world %s, delivery #%d (%d bytes to %s), %s packet: byte %d of the packet (%s) altered after "
                      "protection, %s%s" % (world, index, len(deliveries[index][2]), meta["receiver"], meta["ptype"], off, region(pk, off), desc,
                                              "" if alone else " (only after the %d mutants fed before it)" % mut.fed),
                      dict(rp, only=[off, val]), off)
        return acc
    # the genuine datagram and the rest of the baseline must go exactly as recorded
    problem = None
    if outcome != "done":
        problem = "run ended with %s" % outcome
    else:
        problem = diff_logs(base_log, world_log(w))
    if problem is None and mut.accepted is False:
        # "...and the genuine packet is still accepted afterwards": from the very same state, without the
        # altered copies, is it taken?
        dry, _w, _o = alter_run(world, index, k, lo, hi, tier, dry=True)
        acc.n["state_rebuilds"] += 1
        if dry.accepted:
            problem = ("the genuine %s packet (pn %d) was NOT taken right after the altered copies, although from the "
                       "same state without them it is" % (mut.watch[1], mut.watch[2]))
    if problem is not None:
        culprit = None
        for off, val in mut.suspects[:8]:
            solo, w2, out2 = alter_run(world, index, k, lo, hi, tier, only=(off, val))
            if out2 != "done" or diff_logs(base_log, world_log(w2)) is not None:
                culprit = (off, val)
                break
        acc.violation(dict(sigbase, monitor="genuine_packet_not_accepted_afterwards", region=region(pk, culprit[0]) if culprit else "?",
                           alone=culprit is not None),
                      "world %s, delivery #%d, %s packet to %s: after %d altered copies (each without visible effect) the genuine datagram and the "
                      "rest of the run no longer match the baseline: %s%s"
                      % (world, index, meta["ptype"], meta["receiver"], mut.fed, problem,
                         "; single culprit byte %d -> 0x%02x" % culprit if culprit else "; %d mutants changed receive bookkeeping" % len(mut.suspects)),
                      dict(rp, only=list(culprit) if culprit else None), 0)
    elif mut.suspects:
        acc.notes["mutants_that_changed_unjudged_bookkeeping"] += len(mut.suspects)
        acc.examples.setdefault("bookkeeping", "%s #%d pkt %d: byte %d -> 0x%02x" % ((world, index, k) + mut.suspects[0]))
    return acc


def items_alter(ctx):
    items = []
    chunk = 1300 if ctx.tier == "quick" else 160
    for world in (ALTER_WORLDS if ctx.tier == "quick" else list(WORLDS)):
        try:
            deliveries, _, _ = baseline(world)
        except BaselineFailed:
            items.append((world, None, 0, 0, 0, ctx.tier))
            continue
        for i, (did, dst, data, addr, kind) in enumerate(deliveries):
            for k, pk in enumerate(packets_of(data)):
                n = pk.end - pk.start
                for lo in range(0, n, chunk):
                    items.append((world, i, k, lo, min(n, lo + chunk), ctx.tier))
        # Within one item the altered copies meet the SAME endpoint one after the other: a harmless early copy can
        # mask what a later one would have done to a fresh state (e.g. initialise a server's Initial keys properly
        # before the copy with the altered DCID arrives).  Where the parsing decisions live - the first 48 bytes of
        # a packet - every byte therefore gets an item (a fresh state) of its own: quick for the first datagram each
        # endpoint ever receives, thorough for every delivery.
        first = {}
        for i, (did, dst, data, addr, kind) in enumerate(deliveries):
            first.setdefault(dst, i)
        for i, (did, dst, data, addr, kind) in enumerate(deliveries):
            if ctx.tier == "quick" and first[dst] != i:
                continue
            for k, pk in enumerate(packets_of(data)):
                for lo in range(0, min(48, pk.end - pk.start)):
                    items.append((world, i, k, lo, lo + 1, ctx.tier))
    return items


# =========================================================================== forge
# Initial packets are protected with keys anybody on the path can derive (RFC 9001 5.2).  Once an endpoint
# has discarded its Initial keys - the client when it first SENDS a Handshake packet, the server when it
# first PROCESSES one (RFC 9001 4.9.1) - no Initial packet is authentic any more, in any version the
# endpoint supports.  The forger builds such packets with the independent implementation.
FORGE_PAYLOADS = (
    ("CONNECTION_CLOSE", RQ.enc_frames([{"t": "CONNECTION_CLOSE", "app": False, "err": 0xA, "ftype": 0, "reason": b"forged"}])),
    ("PING", RQ.enc_frames([{"t": "PING"}])),
)


class Forger(netsim.Monitor):
    """Just before the `index`-th delivery: feed forged Initial packets to the receiver (if it is past
    the point where Initial keys are discarded); nothing may happen."""

    def __init__(self, world, index, sanity=False):
        self.world, self.index, self.sanity = world, index, sanity
        self.count = 0
        self.fed = 0
        self.hit = None
        self.meta = None
        self.hs_delivered_to_server = False
        self.judged = False

    def on_deliver(self, w, ep, d, addr):
        i = self.count
        self.count += 1
        data = bytes(d.data)
        pks = packets_of(data)
        if i == self.index:
            self._forge(w, ep, pks, addr)
        if ep.name == "s" and any(p.type == "handshake" for p in pks):
            self.hs_delivered_to_server = True

    def _forge(self, w, ep, pks, addr):
        conn = ep.conn
        self.meta = dict(world=self.world, delivery=self.index, receiver=ep.name)
        if ep.name == "c":
            past = any(r.type == "handshake" for r in ep.sent_packets)
        else:
            past = self.hs_delivered_to_server
        if self.sanity:
            past = not past     # harness self-check: BEFORE the discard point such a packet must be taken
        if not past or not pks:
            return
        self.judged = True
        my_cid = pks[0].dcid                       # a connection ID of the receiver, as seen on the wire
        sent = [r for r in ep.sent_packets if r.dcid]
        peer_cid = sent[-1].dcid if sent else bytes(8)
        base = fingerprint(conn)
        for version in (V1, V2):
            for odcid in w.obs.initial_dcids:
                cs, ss = RQ.initial_secrets(version, odcid)
                keys = RQ.Keys("aes128", ss if ep.name == "c" else cs, version)
                for pname, payload in FORGE_PAYLOADS:
                    for pn in (0, 7, 4000):
                        pkt = RQ.build_long(version, "initial", my_cid, peer_cid, pn, 2, payload + bytes(1162 - len(payload)), keys)
                        self.fed += 1
                        desc = "forged %s Initial (pn %d, %s, keys from the public DCID %s)" % (
                            "v1" if version == V1 else "v2", pn, pname, odcid.hex())
                        try:
                            conn.receive_datagram(pkt, addr, now=w.now)
                        except Exception as e:  # noqa
                            self.hit = (desc + ": receive_datagram raised %s: %s" % (type(e).__name__, e),
                                        dict(monitor="forged_initial_raised", exc=type(e).__name__))
                            return
                        fp = fingerprint(conn)
                        if fp != base:
                            changed = [FP_NAMES[j] for j in range(len(fp)) if fp[j] != base[j]]
                            evs = [type(e).__name__ for e in list(conn._events)[base[0]:]]
                            self.hit = (desc + " changed: %s%s" % (", ".join(changed), (" (events %s)" % evs) if evs else ""),
                                        dict(monitor="forged_initial_had_effect", version="v1" if version == V1 else "v2",
                                             negotiated="v1" if conn._version == V1 else "v2",
                                             effect=changed[0] if not evs else "event:" + evs[0]))
                            return


def work_forge(item):
    from vlib import explore

    acc = Acc()
    world, lo, hi = item
    deliveries, base_log, _ = baseline(world)
    for index in range(lo, min(hi, len(deliveries))):
        fg = Forger(world, index)
        w = netsim.NetSim(world_cfg(world), world_script(world), explore.Chooser([]), monitors=[fg], max_steps=400)
        try:
            outcome = w.run(_done)
        except Exception as e:  # noqa
            outcome = "exception %s: %s" % (type(e).__name__, e)
        if fg.meta is None:
            raise core.HarnessError("delivery %d of %s not reached: %s" % (index, world, outcome))
        acc.n["forged_fed"] += fg.fed
        acc.n["states_judged"] += bool(fg.judged)
        acc.distinct.add(hash((world, index, fg.judged)))
        rp = dict(part="forge", world=world, index=index)
        sigbase = dict(part="forge", receiver=fg.meta["receiver"])
        if fg.hit is not None:
            desc, sig = fg.hit
            acc.violation(dict(sigbase, **sig),
                          "world %s, before delivery #%d, %s has discarded its Initial keys (RFC 9001 4.9.1): %s"
                          % (world, index, "client" if fg.meta["receiver"] == "c" else "server", desc), rp, index)
            continue
        if not fg.judged:
            continue
        problem = ("run ended with %s" % outcome) if outcome != "done" else diff_logs(base_log, world_log(w))
        if problem is not None:
            acc.violation(dict(sigbase, monitor="genuine_packet_not_accepted_afterwards"),
                          "world %s, delivery #%d to %s: after %d forged Initial packets (each without visible effect) the rest of the "
                          "run no longer matches the baseline: %s" % (world, index, fg.meta["receiver"], fg.fed, problem), rp, index)
    return acc


def forge_selfcheck():
    """The forged packets are well-formed: before the discard point the client takes them."""
    from vlib import explore

    deliveries, _, _ = baseline("v1-aes128")
    index = next(i for i, x in enumerate(deliveries) if x[1] == "c")
    fg = Forger("v1-aes128", index, sanity=True)
    w = netsim.NetSim(world_cfg("v1-aes128"), SCRIPT, explore.Chooser([]), monitors=[fg], max_steps=400)
    try:
        w.run(_done)
    except Exception:  # noqa
        pass
    if fg.hit is None or fg.hit[1].get("monitor") != "forged_initial_had_effect":
        raise core.HarnessError("forge self-check: an Initial packet forged before the discard point was not taken (%r)" % (fg.hit,))


def items_forge(ctx):
    forge_selfcheck()
    items = []
    for world in (ALTER_WORLDS + ["v1-to-v2-compat"] if ctx.tier == "quick" else list(WORLDS)):
        try:
            deliveries, _, _ = baseline(world)
        except BaselineFailed:
            continue
        for lo in range(0, len(deliveries), 4):
            items.append((world, lo, lo + 4))
    return items


# =========================================================================== main
PARTS = [("seal", items_seal, work_seal), ("public", items_public, work_public), ("pn", items_pn, work_pn),
         ("alter", items_alter, work_alter), ("forge", items_forge, work_forge)]


def _dispatch(x):
    for name, _, work in PARTS:
        if name == x[0]:
            return work(x[1])
    raise KeyError(x[0])


def _crashed(item, detail):
    a = Acc()
    a.violation(dict(part=item[0], monitor="worker_crashed"), "worker process died on %r: %s" % (item, str(detail)[:300]),
                dict(part=item[0], item=repr(item)))
    return a


def run(ctx):
    todo = []
    for name, mk, _ in PARTS:
        if ctx.only_parts and name not in ctx.only_parts:
            continue
        todo += [(name, it) for it in mk(ctx)]
    # big alteration chunks first
    todo.sort(key=lambda x: -(x[1][4] - x[1][3]) if x[0] == "alter" and x[1][1] is not None else 0)
    results = core.pmap(_dispatch, todo, on_crash=_crashed)
    for name, mk, _ in PARTS:
        if ctx.only_parts and name not in ctx.only_parts:
            continue
        acc = Acc()
        n_items = 0
        for (n, it), a in zip(todo, results):
            if n == name:
                acc.merge(a)
                n_items += 1
        evals = sum(v for k, v in acc.n.items() if k in ("seal_pairs", "wire_packets", "fed_packets", "pn_cases", "mutants_fed", "forged_fed"))
        ctx.part(name, evaluations=evals, distinct_nontrivial=len(acc.distinct), work_items=n_items, **dict(acc.n))
        ctx.cov["parts"][name]["not_judged"] = dict(acc.notes)
        ctx.cov["parts"][name]["examples"] = acc.examples
        if evals == 0 and name != "alter":
            raise core.HarnessError("part %s evaluated nothing" % name)
        if name == "alter" and acc.n["mutants_fed"] < 1000 and not any(it[1] is None for n, it in todo if n == "alter"):
            raise core.HarnessError("alteration part is vacuous")
        for rank, sig, what, replay in sorted(acc.viol.values(), key=lambda v: (v[0], core.stable_hash(v[1]))):
            ctx.violation(sig, what, replay)
    for w in ALTER_WORLDS[:1]:
        try:
            d, _, _ = baseline(w)
        except BaselineFailed:
            continue
        ctx.sample({"world": w, "deliveries": [(x[1], len(x[2]), [p.type for p in packets_of(x[2])]) for x in d]})
    ctx.cov["rule"] = (
        "seal: every (suite, version, key phase, header form, CID lengths, payload length, packet number, pn length) of the grid through "
        "CryptoPair.encrypt_packet -> refquic and refquic -> CryptoPair.decrypt_packet, bit-exact; public: every packet emitted by real "
        "connections opened by refquic from secrets_log_file with RFC labels, refquic packets into receive_datagram must yield the stream "
        "event; pn: decode_packet_number vs brute force; alter: every single-bit flip (thorough: every byte value) of every packet of every "
        "delivered datagram of the baseline runs, fed in the state just before it: fingerprint (events, tls.state, connection state, close) "
        "unchanged, then the genuine datagram and the rest of the run reproduce the baseline event log and delivered bytes; forge: before "
        "every delivery to an endpoint that is past the RFC 9001 4.9.1 discard point, Initial packets built from public information "
        "(both versions x every original DCID seen on the wire x {CONNECTION_CLOSE, PING} x 3 packet numbers): same oracle")
    ctx.cov["exhaustive"] = not ctx.caps_hit and not ctx.only_parts
    ctx.cov["bounds"] = dict(worlds=ALTER_WORLDS if ctx.tier == "quick" else list(WORLDS), public_worlds=list(WORLDS), payload_grid="4..64, every 37th to the 1200 limit, the limit, "
                             "and header+payload+tag = 1500 (_crypto.c PACKET_LENGTH_MAX)", alteration=ctx.tier)
    ctx.assumptions += [
        "cryptography's AES-GCM / ChaCha20-Poly1305 / AES-ECB / ChaCha20 primitives are the trusted base of refquic",
        "a mutant is fed at packet granularity: [packets before it, genuine][altered packet + zero padding in place of later packets]",
        "mutants that turn a long-header packet into a WELL-FORMED Version Negotiation packet (version field 0, whole number of versions) "
        "for a client that has not processed any packet yet are skipped (counted): VN packets are not protected packets",
        "packets above 1500 bytes are outside the C helpers' contract (C04) and not sealed here",
        "on exact ties decode_packet_number may return either candidate",
    ]


def replay(ctx, obj):
    rp = obj["replay"]
    acc = Acc()
    part = rp["part"]
    print("replaying", rp)
    if part == "seal":
        ck = rp["ctx"]
        if ck.startswith("initial-"):
            acc.merge(work_seal(("initial", rp.get("version", V1))))
            acc.merge(work_seal(("initial", V2)))
        else:
            suite = ck.split("-")[0]
            for v in (V1, V2):
                acc.merge(work_seal(("generic", suite, v)))
    elif part == "pn":
        pn_case(acc, rp["t"], rp["bits"], rp["e"])
        print("  decode_packet_number(%d, %d, %d) = %d; closest %r" % (rp["t"], rp["bits"], rp["e"],
              P.decode_packet_number(rp["t"], rp["bits"], rp["e"]), brute_pn(rp["t"], rp["bits"], rp["e"])))
    elif part == "public":
        acc.merge(work_public((rp["kind"], rp["world"])))
    elif part == "alter":
        if rp.get("only"):
            mut, w, outcome = alter_run(rp["world"], rp["index"], rp["k"], rp["lo"], rp["hi"], rp["tier"], only=tuple(rp["only"]))
            print("  single mutant %r: fed=%d hit=%r outcome=%s" % (rp["only"], mut.fed, mut.hit, outcome))
        acc.merge(work_alter((rp["world"], rp["index"], rp["k"], rp["lo"], rp["hi"], rp["tier"])))
    elif part == "forge":
        acc.merge(work_forge((rp["world"], rp["index"], rp["index"] + 1)))
    want = core.stable_hash(obj["signature"])
    hit = False
    for k, (rank, sig, what, _) in sorted(acc.viol.items()):
        print(" %s VIOLATION %s\n     %s" % ("*" if k == want else " ", core.jdump(sig, sort_keys=True), what[:1200]))
        hit |= k == want
    if hit:
        print("VIOLATION property=C02 replay=(replayed)")
        return 1
    print("the recorded violation does not reproduce")
    return 0
