"""C04 - native helpers never access memory out of bounds.

Controller of the sanitizer world (DESIGN §3.5, §4 C04).  This process (plain
extension flavour) only plans and judges; every helper call happens in
``vlib.asanworker`` subprocesses that run the ASan+UBSan build of the *current*
_crypto.c/_buffer.c with the libcrypto argument shim preloaded.

Enumerated (E3 grids, E2 BFS on Buffer): see PARTS below and the evidence file.
Observers: sanitizer (process death), shim, C-contract monitor, semantic
differential + follow-up call (see vlib/asanworker.py).

Crashes.  A worker that dies is attributed through its progress file (case index
and, for out-of-contract calls, function / argument class written just before
the call).  The argument class (function, rule broken, power-of-two bucket of the
overshoot, API entry) becomes a *pruned key*: further calls of that class are not
made any more (they would kill a worker each) but counted as
``pruned_by_finding``; the finding itself is reported with the simplest case.
For the direct grids a dry enumeration finds the first/last case of every
out-of-contract class up front ("scout") so that the bulk run meets no crash.
Every crash signature is confirmed by re-running its single case alone in a fresh
worker (a growing suffix of the preceding cases is tried if it does not reproduce
alone).
"""
import collections
import atexit
import json
import os
import re
import struct
import subprocess
import threading
import time

from vlib import build, core, explore  # noqa: F401  (explore: framework convention)
import vlib.asanworker as W

LEVEL = "model_checking"
CACHE = os.path.join(build.CACHE, "c04")
PY = "/venv/bin/python"
# redzone=64: every stray range of the grids (at most 44 bytes past an argument) ends
# in a red zone, never in a neighbouring live object, whatever the heap layout
QUARANTINE = ":quarantine_size_mb=2:thread_local_quarantine_size_kb=16:redzone=64"


# ------------------------------------------------------------------ workers
def worker_env(symbolize=False, shim_mode=1):
    shim = build.ensure_shim()
    env = build.asan_env([shim])
    env["VERIF_EXT"] = "asan"
    env["VERIF_REPO"] = build.REPO
    # page faults are very expensive on the sandbox: a small quarantine lets the
    # allocator reuse memory (overflow detection is unaffected; only the
    # use-after-free window shrinks, which no observer here relies on)
    env["ASAN_OPTIONS"] += QUARANTINE + ":symbolize=%d" % (1 if symbolize else 0)
    env["UBSAN_OPTIONS"] += ":symbolize=%d" % (1 if symbolize else 0)
    env["CRYPTOSHIM_MODE"] = str(shim_mode)
    # workers are restarted after every sanitizer death; compiling aioquic's sources
    # costs > 1 s each time, so byte code is cached under .cache (never next to /repo)
    env.pop("PYTHONDONTWRITEBYTECODE", None)
    env["PYTHONPYCACHEPREFIX"] = os.path.join(build.CACHE, "pycache")
    return env


class Worker:
    def __init__(self, wid, symbolize=False):
        self.wid = wid
        self.symbolize = symbolize
        # per-process names: two runs of this check at the same time (quick and thorough, or against two
        # trees) must not read each other's progress files - a death would be attributed to nothing
        self.progress = os.path.join(CACHE, "progress-%d-%s" % (os.getpid(), wid))
        self.errpath = os.path.join(CACHE, "stderr-%d-%s" % (os.getpid(), wid))
        atexit.register(self._cleanup)
        self.p = None
        self.hello = None

    def _cleanup(self):
        for p in (self.progress, self.errpath):
            try:
                os.unlink(p)
            except OSError:
                pass

    def start(self):
        env = worker_env(self.symbolize)
        env["VERIF_C04_PROGRESS"] = self.progress
        with open(self.progress, "wb") as f:
            f.write(b"\0" * 4096)
        self.err = open(self.errpath, "wb")
        self.p = subprocess.Popen([PY, "-m", "vlib.asanworker"], env=env, cwd=build.VERIF,
                                  stdin=subprocess.PIPE, stdout=subprocess.PIPE, stderr=self.err,
                                  text=True, bufsize=1)
        line = self.p.stdout.readline()
        try:
            self.hello = json.loads(line)
        except ValueError:
            self.hello = None
        if not self.hello or self.hello.get("t") != "hello" or not self.hello.get("sanitizer"):
            raise core.HarnessError("sanitizer worker did not start: %r / %s"
                                    % (line[:200], self.stderr_tail()))

    def stderr_tail(self, n=6000):
        try:
            self.err.flush()
        except Exception:  # noqa
            pass
        try:
            with open(self.errpath, "rb") as f:
                data = f.read()
            return data[-n:].decode("utf-8", "replace")
        except OSError:
            return ""

    def read_progress(self):
        try:
            with open(self.progress, "rb") as f:
                d = f.read(4096)
            idx, seq, n = struct.unpack("<qqI", d[:20])
            note = None
            if 0 < n <= 4000:
                try:
                    note = json.loads(d[20:20 + n].decode())
                except ValueError:
                    note = None
            return idx, note
        except (OSError, struct.error):
            return None, None

    def run(self, spec, on_line=None):
        """-> ("done", done_obj, lines) | ("crash", info, lines) | ("harness", msg, lines)"""
        if self.p is None or self.p.poll() is not None:
            self.start()
        lines = []
        try:
            self.p.stdin.write(json.dumps(spec, default=core.jdefault) + "\n")
            self.p.stdin.flush()
        except (BrokenPipeError, OSError):
            pass
        while True:
            line = self.p.stdout.readline()
            if not line:
                rc = self.p.wait()
                idx, note = self.read_progress()
                info = {"rc": rc, "index": idx, "note": note, "stderr": self.stderr_tail()}
                self.p = None
                return "crash", info, lines
            try:
                obj = json.loads(line)
            except ValueError:
                continue
            if on_line:
                on_line(obj)
            if obj.get("t") == "done":
                return "done", obj, lines
            if obj.get("t") == "harness":
                return "harness", obj.get("msg"), lines
            lines.append(obj)

    def stop(self):
        if self.p is not None and self.p.poll() is None:
            try:
                self.p.stdin.write('{"k":"quit"}\n')
                self.p.stdin.flush()
                self.p.wait(timeout=5)
            except Exception:  # noqa
                self.p.kill()
        self.p = None


def classify_crash(info):
    """(monitor, kind, summary line) from exit status + sanitizer output."""
    err = info.get("stderr") or ""
    rc = info.get("rc")
    m = re.search(r"CRYPTOSHIM-FATAL: (\S+) (READ|WRITE)([^\n]*)", err)
    if m:
        return "shim", "%s %s" % (m.group(1), m.group(2)), m.group(0)
    m = re.search(r"ERROR: AddressSanitizer: ([\w-]+)", err)
    if m:
        kind = m.group(1)
        a = re.search(r"\n(READ|WRITE) of size (\d+)", err)
        line = m.group(0)
        if a:
            kind += " " + a.group(1)
            line += ", %s of size %s" % (a.group(1), a.group(2))
        return "asan", kind, line
    m = re.search(r"runtime error: ([^\n]*)", err)
    if m:
        msg = m.group(1)
        kind = re.sub(r"0x[0-9a-fA-F]+|-?\d+", "N", msg)
        return "ubsan", kind[:80], "UBSan: " + msg
    if rc is not None and rc < 0:
        return "crash", "signal %d" % -rc, "worker killed by signal %d" % -rc
    return "crash", "exit %s" % rc, "worker exited with status %s" % rc


JOB_FUNC = {"hp_remove": W.F_REMOVE, "hp_apply": W.F_APPLY, "aead": "AEAD", "ctor": "constructor",
            "buffer": "Buffer", "buffer_ctor": W.F_BUF_INIT, "lib_send": "library", "lib_recv": "library"}


def _key_and_larger(key):
    """a class that kills the process with an overshoot of <= N bytes does so with a
    larger overshoot as well: prune the larger buckets too (saves one death each)."""
    out = [key]
    parts = key.split("|")
    if len(parts) == 4 and parts[2].startswith("<="):
        n = int(parts[2][2:])
        while n < (1 << 17):
            n *= 2
            out.append("|".join((parts[0], parts[1], "<=%d" % n, parts[3])))
    return out


class Pool:
    """N sanitizer workers fed from a job queue; crashes are attributed, the class
    in flight is pruned, the job is re-run."""

    MAX_CRASHES_PER_JOB = 40

    def __init__(self, n):
        self.n = n
        self.workers = [Worker(i) for i in range(n)]
        self.lock = threading.Lock()
        self.pruned = set()
        self.crashes = []  # dicts: job, index, note, monitor, kind, line
        self.nspawn = 0
        self.consts = None
        self.abandoned = []

    def close(self):
        for w in self.workers:
            w.stop()

    def run(self, jobs):
        """jobs: list of dict(spec=..., part=..., order=...).  Returns list of
        (job, done) in job order.  Raises HarnessError on harness trouble."""
        queue = collections.deque(jobs)
        results = {}
        errors = []

        def loop(w):
            while True:
                with self.lock:
                    if not queue or errors:
                        return
                    job = queue.popleft()
                    spec = dict(job["spec"])
                    spec["pruned"] = sorted(self.pruned)
                    spec["skip"] = sorted(job.setdefault("skip", set()))
                try:
                    kind, val, lines = w.run(spec)
                    if self.consts is None and w.hello:
                        self.consts = w.hello.get("consts")
                except core.HarnessError as e:
                    errors.append(str(e))
                    return
                if kind == "done":
                    results[job["order"]] = (job, val)
                elif kind == "harness":
                    errors.append(val)
                    return
                else:
                    if val.get("rc") == 1 and "Traceback (most recent call last)" in (val.get("stderr") or ""):
                        errors.append("worker raised a Python exception: " + (val.get("stderr") or "")[-1200:])
                        return
                    mon, k, line = classify_crash(val)
                    note = val.get("note")
                    rec = {"job": job, "index": val.get("index"), "note": note, "monitor": mon,
                           "kind": k, "line": line, "rc": val.get("rc"), "stderr": val.get("stderr")}
                    with self.lock:
                        self.crashes.append(rec)
                        job["crashes"] = job.get("crashes", 0) + 1
                        if job["crashes"] > self.MAX_CRASHES_PER_JOB:
                            # a job that keeps killing workers is given up (reported as a cap);
                            # the deaths themselves are findings and are reported as such
                            self.abandoned.append("%s after %d worker deaths" % (
                                json.dumps(job["spec"], default=core.jdefault)[:120], job["crashes"]))
                            results[job["order"]] = (job, {"counts": {}, "viol": []})
                            continue
                        if val.get("index") is None or val.get("index") < -1:
                            errors.append("worker died outside any case: %s / %s"
                                          % (line, (val.get("stderr") or "")[-800:]))
                            return
                        if note and note.get("key"):
                            # (only for overflowing writes; stray reads are caught non-fatally
                            # by the shim whatever their size)
                            self.pruned.update(_key_and_larger(note["key"]) if note.get("access") == "write"
                                               else [note["key"]])
                        else:
                            job["skip"].add(val["index"])
                        queue.appendleft(job)

        threads = [threading.Thread(target=loop, args=(w,)) for w in self.workers[:max(1, min(self.n, len(jobs)))]]
        for t in threads:
            t.start()
        for t in threads:
            t.join()
        if errors:
            raise core.HarnessError("; ".join(errors[:3]))
        return [results[j["order"]] for j in jobs]


# ------------------------------------------------------------------ planning
def _ranges_by_work(lo, hi, work, target):
    out, a, acc = [], lo, 0
    for x in range(lo, hi):
        acc += work(x)
        if acc >= target:
            out.append((a, x + 1))
            a, acc = x + 1, 0
    if a < hi:
        out.append((a, hi))
    return out


BIG_LENS = list(range(1601, 2101, 7)) + [4096, 16383, 16384, 65535]


def plan(tier, parts, seed=0):
    """-> (jobs, bounds).  Jobs are ordered simplest-first inside each part.
    VERIF_SEED only selects which fifth of the thorough tier's large-length grid the
    quick tier adds to its fixed core."""
    jobs = []
    bounds = {}
    thorough = tier == "thorough"

    def add(part, spec, scout=False):
        jobs.append({"spec": spec, "part": part, "order": len(jobs), "scout": scout})

    if "hp_remove" in parts:
        ciphers = ["aes-128-ecb", "chacha20"] + (["aes-256-ecb"] if thorough else [])
        for c in ciphers:
            for a, b in _ranges_by_work(0, 1601, lambda L: L + 25, 45000):
                add("hp_remove", {"k": "hp_remove", "cipher": c, "lo": a, "hi": b, "offs": "all",
                                  "extremes": True}, True)
        if not thorough:
            for a, b in _ranges_by_work(0, 1601, lambda L: 90, 45000):
                add("hp_remove", {"k": "hp_remove", "cipher": "aes-256-ecb", "lo": a, "hi": b,
                                  "offs": "edge", "extremes": True}, True)
            add("hp_remove", {"k": "hp_remove", "cipher": "aes-128-ecb", "lens": BIG_LENS[seed % 5::5],
                              "offs": "edge"}, True)
        else:
            for c in ciphers:
                for j in range(0, len(BIG_LENS), 25):
                    add("hp_remove", {"k": "hp_remove", "cipher": c, "lens": BIG_LENS[j:j + 25],
                                      "offs": "edge"}, True)
        bounds["hp_remove"] = {"ciphers_full_grid": ciphers, "packet_len": "0..1600 (every length)",
                               "pn_offset": "0..len+24 (every offset) + %s" % W.OFF_EXTREMES,
                               "edge_grid": ("aes-256-ecb, every length, offsets near 0 / len / scratch end; "
                                             "seed-selected fifth of the thorough large-length grid"
                                             if not thorough else
                                             "lengths %d..2100 step 7, 4096, 16383, 16384, 65535" % 1601)}
    if "hp_apply" in parts:
        ciphers = ["aes-128-ecb", "chacha20"] + (["aes-256-ecb"] if thorough else [])
        for c in ciphers:
            for h in range(0, 65, 3):
                add("hp_apply", {"k": "hp_apply", "cipher": c, "hlo": h, "hhi": min(h + 3, 65),
                                 "plens": "all"}, True)
        for c in (["aes-256-ecb"] if not thorough else ciphers):
            for h in range(0, 65, 16):
                add("hp_apply", {"k": "hp_apply", "cipher": c, "hlo": h, "hhi": min(h + 16, 65),
                                 "plens": "edge"}, True)
        bounds["hp_apply"] = {"ciphers_full_grid": ciphers, "header_len": "0..64 x 4 pn lengths",
                              "payload_len": "0..1600 (every length); edge grid adds 2048..65535"}
    if "aead" in parts:
        for c in ("aes-128-gcm", "aes-256-gcm", "chacha20-poly1305"):
            step = 60 if thorough else 120
            for a in range(0, 1601, step):
                add("aead", {"k": "aead", "cipher": c, "lo": a, "hi": min(a + step, 1601),
                             "full": thorough}, True)
            big = BIG_LENS if thorough else [1700, 2048, 4096, 65535]
            add("aead", {"k": "aead", "cipher": c, "lens": big, "full": thorough}, True)
        bounds["aead"] = {"data_len": "0..1600 (every length) + large grid", "aad_len": list(W.AADS),
                          "pn": list(W.PNS), "ops": ["encrypt", "decrypt(reference-sealed)", "decrypt(garbage)"],
                          "aad_x_pn": "full product" if thorough else "1/5 of the 25 pairs per length (rotating)"}
    if "ctor" in parts:
        add("ctor", {"k": "ctor", "which": "aead"})
        add("ctor", {"k": "ctor", "which": "hp"})
        bounds["ctor"] = {"aead_names": len(W.AEAD_NAMES), "hp_names": len(W.HP_NAMES),
                          "key_len": "0..40, 64, 4096", "iv_len": "0..40, 64, 4096"}
    if "buffer" in parts:
        add("buffer", {"k": "buffer_ctor"}, True)
    if "lib_send" in parts:
        vals = W.send_mds_values(tier)
        small = [v for v in vals if v <= 1560]
        large = [v for v in vals if v > 1560]
        pairs = [(v, v) for v in small]
        if thorough:
            pairs += [(v, 1200) for v in small] + [(1200, v) for v in small]
        for j in range(0, len(pairs), 6):
            add("lib_send", {"k": "lib_send", "mds": pairs[j:j + 6]})
        for v in large:
            add("lib_send", {"k": "lib_send", "mds": [(v, v)] + ([(v, 1200), (1200, v)] if thorough else [])})
        bounds["lib_send"] = {"max_datagram_size": "1200..1560 step 4, 2048, 4096, 16383, 16384, 65535",
                              "pairs": "client=server" + (", (v,1200), (1200,v)" if thorough else ""),
                              "scenarios": list(W.SEND_SCENARIOS)}
    if "lib_recv" in parts:
        n = W.recv_grammar_size(not thorough)
        for st in W.RECV_STATES:
            for a in range(0, n, 2500):
                add("lib_recv", {"k": "lib_recv", "state": st, "lo": a, "hi": min(a + 2500, n),
                                 "quick": not thorough})
        bounds["lib_recv"] = {"states": list(W.RECV_STATES), "datagrams_per_state": n,
                              "token_len": "0,1,2,1400,1480..1520,2000,60000",
                              "declared_rest": [str(r) for r in W.RESTS],
                              "datagram_len": "0..64, 1199..1201, 1500, 1501, 4096, 65535",
                              "cid_len_pairs": W.CID_PAIRS}
    return jobs, bounds


# ------------------------------------------------------------------- judging
class Judge:
    def __init__(self, ctx, pool):
        self.ctx = ctx
        self.pool = pool
        self.records = []  # (sortkey, sig, what, replay, needs_confirm)
        self.parts = collections.defaultdict(collections.Counter)
        self.outcomes = collections.defaultdict(set)
        self.extra = collections.defaultdict(collections.Counter)
        self.shim_checked = 0

    def absorb(self, results):
        for job, done in results:
            part = job["part"]
            c = self.parts[part]
            for k, v in done.get("counts", {}).items():
                c[k] += v
                if v:
                    self.outcomes[part].add(k)
            for k, v in (done.get("outcomes") or {}).items():
                self.extra[part][k] += v
                self.outcomes[part].add("lib:" + k)
            self.shim_checked = max(self.shim_checked, done.get("shim_checked", 0))
            for v in done.get("viol", []):
                spec = {k: x for k, x in job["spec"].items() if k not in ("pruned", "skip", "only", "dry")}
                self.records.append(((job["order"], v["index"]), v["sig"], v["what"] + " [%d case(s)]" % v["count"],
                                     {"spec": spec, "only": [v["index"]], "detail": v.get("detail"),
                                      "expect": {"monitor": v["sig"]["monitor"]}}, True))

    def absorb_crashes(self):
        seen = set()
        for rec in self.pool.crashes:
            job = rec["job"]
            note = rec["note"] or {}
            sig = {"monitor": rec["monitor"], "func": note.get("func") or JOB_FUNC.get(job["spec"]["k"], "?"),
                   "access": note.get("access", "none"), "arg_class": note.get("arg_class", "in_contract"),
                   "entry": note.get("entry", "direct" if not job["spec"]["k"].startswith("lib_") else "library"),
                   "kind": rec["kind"]}
            key = tuple(sorted(sig.items()))
            self.parts[job["part"]]["worker_deaths"] += 1
            self.outcomes[job["part"]].add("death:" + rec["monitor"])
            if key in seen:
                continue
            seen.add(key)
            spec = {k: x for k, x in job["spec"].items() if k not in ("pruned", "skip", "only", "dry")}
            what = "worker killed: %s while running %s%s (case %s of %s)" % (
                rec["line"], sig["func"], tuple(note.get("detail")) if isinstance(note.get("detail"), list)
                else (note.get("detail") or ""), rec["index"], json.dumps(spec, default=core.jdefault)[:160])
            self.records.append(((job["order"], rec["index"]), sig, what,
                                 {"spec": spec, "only": [rec["index"]], "detail": note.get("detail"),
                                  "expect": {"monitor": rec["monitor"], "kind": rec["kind"], "death": True}},
                                 True))

    def report(self):
        """confirm (fresh worker, single case) and hand over, simplest first."""
        ctx = self.ctx
        self.records.sort(key=lambda r: r[0])
        done = set()
        confirmer = None
        try:
            for _, sig, what, replay, _c in self.records:
                key = tuple(sorted(sig.items()))
                if key in done:
                    continue
                done.add(key)
                if ctx.match_known(sig) is None:
                    if confirmer is None:
                        confirmer = Worker("confirm", symbolize=True)
                    ok, replay2, extra = confirm(confirmer, sig, replay)
                    if not ok:
                        raise core.HarnessError("violation did not reproduce in a fresh worker "
                                                "(nondeterminism?): %s / %s" % (json.dumps(sig), what))
                    replay = replay2
                    if extra:
                        what += " | " + extra
                ctx.violation(sig, what, replay)
        finally:
            if confirmer is not None:
                confirmer.stop()


def _same(sig, v):
    return all(v["sig"].get(k) == sig.get(k) for k in ("monitor", "func", "arg_class", "entry", "kind"))


def run_single(worker, replay, trace=False, on_line=None):
    spec = dict(replay["spec"])
    spec["only"] = list(replay["only"])
    spec["pruned"] = []
    spec["skip"] = []
    if trace:
        spec["trace"] = True
    return worker.run(spec, on_line=on_line)


def confirm(worker, sig, replay):
    """Re-run the single case alone in a fresh process.  For deaths that do not
    reproduce alone, a growing suffix of the preceding cases is tried (delayed
    effect of heap damage)."""
    idx = replay["only"][0]
    tries = [[idx]]
    if idx is not None and idx > 0:
        k = 1
        while k <= 4096 and idx - k >= 0:
            tries.append(list(range(idx - k, idx + 1)))
            k *= 4
    for only in tries:
        r = dict(replay)
        r["only"] = only
        worker.stop()
        kind, val, lines = run_single(worker, r)
        if kind == "harness":
            raise core.HarnessError(val)
        if replay["expect"].get("death"):
            if kind == "crash":
                mon, k2, line = classify_crash(val)
                if mon == sig["monitor"]:
                    frame = re.search(r"#\d+ 0x[0-9a-f]+ in (\w+) [^\n]*_(?:crypto|buffer)\.c:\d+", val.get("stderr") or "")
                    return True, r, ("confirmed alone: %s%s" % (line, (" in " + frame.group(1)) if frame else ""))
        else:
            if kind == "done" and any(_same(sig, v) for v in val.get("viol", [])):
                return True, r, ""
            if kind == "crash":
                # the case also kills the process when nothing is pruned: still a reproduction
                return True, r, "single case kills the worker: %s" % classify_crash(val)[2]
    return False, replay, ""


# --------------------------------------------------------------------- scout
def scout(pool, jobs, judge):
    """Dry enumeration of the direct grids: first and last case of every
    out-of-contract class; those cases are then run for real, one job at a time
    per grid job, so that classes that kill the process are known (and pruned)
    before the bulk run."""
    cand = [j for j in jobs if j["scout"]]
    if not cand:
        return 0
    dry = [{"spec": dict(j["spec"], dry=True), "part": j["part"], "order": n, "orig": j}
           for n, j in enumerate(cand)]
    res = pool.run(dry)
    first, last = {}, {}
    for d, done in res:
        for key, (a, b, _n) in (done.get("keys") or {}).items():
            if key not in first:
                first[key] = (d["orig"], a)
            last[key] = (d["orig"], b)
    per_job = collections.defaultdict(set)
    for key in first:
        for job, idx in (first[key], last[key]):
            per_job[job["order"]].add(idx)
    sjobs = []
    for j in cand:
        if j["order"] in per_job:
            sjobs.append({"spec": dict(j["spec"], only=sorted(per_job[j["order"]])), "part": j["part"],
                          "order": len(sjobs)})
    out = pool.run(sjobs)
    # violations seen while scouting are seen again by the bulk run unless their class
    # got pruned meanwhile; keep them (the judge de-duplicates by signature)
    for job, done in out:
        done = dict(done)
        done["counts"] = {}  # cases are counted by the bulk run
        judge.absorb([(job, done)])
    return len(first)


# ---------------------------------------------------------------- Buffer BFS
def buffer_bfs(ctx, pool, judge, depth, base_order):
    roots = W.BUF_ROOTS
    nops = []
    seen = []
    frontier = []
    for root in roots:
        cap = root[1] if root[0] == "cap" else len(root[1])
        nops.append(len(W.buffer_ops(cap)))
        seen.append({W.RefBuf(root).key()})
        frontier.append([[]])
    transitions = 0
    expanded = 0
    per_level = []
    for d in range(depth):
        last = d == depth - 1
        jobs = []
        for ri in range(len(roots)):
            fr = frontier[ri]
            chunk = max(1, 60000 // nops[ri])
            for a in range(0, len(fr), chunk):
                jobs.append({"spec": {"k": "buffer", "root": ri, "frontier": fr[a:a + chunk], "succ": not last},
                             "part": "buffer", "order": base_order + len(jobs), "scout": False, "ri": ri})
        res = pool.run(jobs)
        judge.absorb(res)
        nxt = [[] for _ in roots]
        for job, done in res:
            transitions += done.get("total", 0)
            expanded += done.get("expanded", 0)
            ri = job["ri"]
            for key, hist in (done.get("succ") or {}).items():
                if key not in seen[ri]:
                    seen[ri].add(key)
                    nxt[ri].append(hist)
        per_level.append({"depth": d + 1, "expanded_states": sum(len(f) for f in frontier),
                          "new_states": sum(len(f) for f in nxt)})
        frontier = nxt
        base_order += len(jobs)
        if last:
            break
    return {"states_expanded": expanded, "distinct_states": sum(len(s) for s in seen),
            "transitions": transitions, "levels": per_level, "ops_per_root": nops,
            "roots": [list(r) if not isinstance(r[1], bytes) else [r[0], r[1].hex()] for r in roots]}


# ----------------------------------------------------------------------- run
PARTS = ("hp_remove", "hp_apply", "aead", "ctor", "buffer", "lib_send", "lib_recv")


def run(ctx):
    os.makedirs(CACHE, exist_ok=True)
    build.ensure_ext("asan")
    build.ensure_shim()
    from vlib import certs

    certs.ensure_all()
    parts = [p for p in PARTS if ctx.only_parts is None or p in ctx.only_parts]
    thorough = ctx.tier == "thorough"
    jobs, bounds = plan(ctx.tier, parts, ctx.seed)
    pool = Pool(core.NCPU)
    judge = Judge(ctx, pool)
    t0 = time.time()
    try:
        nkeys = scout(pool, jobs, judge)
        t_scout = time.time() - t0
        print("[C04] scout: %d out-of-contract classes, %d pruned after %d worker deaths, %.1fs"
              % (nkeys, len(pool.pruned), len(pool.crashes), t_scout), flush=True)
        results = pool.run(jobs)
        judge.absorb(results)
        print("[C04] bulk grids: %d jobs, %.1fs" % (len(jobs), time.time() - t0), flush=True)
        bfs = None
        if "buffer" in parts:
            bfs = buffer_bfs(ctx, pool, judge, 4 if thorough else 3, len(jobs))
            print("[C04] buffer BFS done, %.1fs" % (time.time() - t0), flush=True)
    finally:
        pool.close()
    judge.absorb_crashes()
    for a in pool.abandoned:
        ctx.cap("job abandoned: " + a)

    K = pool.consts or {}
    ctx.cov["bounds"] = dict(bounds, contract_constants=K,
                             buffer_bfs_depth=(4 if thorough else 3) if "buffer" in parts else None)
    total_pruned = 0
    for part in parts:
        c = judge.parts.get(part, {})
        cases = c.get("cases", 0)
        pruned = c.get("pruned_by_finding", 0) + c.get("cases_cut_by_pruned_call", 0) \
            + c.get("skipped_crashing_case", 0)
        total_pruned += pruned
        kw = dict(evaluations=cases, distinct_nontrivial=len(judge.outcomes.get(part, ())),
                  helper_calls_in_contract_ok=c.get("ok", 0),
                  out_of_contract_calls_made=c.get("out_of_contract_calls", 0),
                  out_of_contract_rejected=c.get("rejected", 0),
                  in_contract_rejected=c.get("in_contract_rejected", 0),
                  pruned_by_finding=pruned, worker_deaths=c.get("worker_deaths", 0))
        if part == "buffer" and bfs:
            kw.update(states=bfs["distinct_states"], transitions=bfs["transitions"],
                      states_expanded=bfs["states_expanded"], levels=bfs["levels"])
        if judge.extra.get(part):
            kw["library_outcomes"] = dict(judge.extra[part])
        ctx.part(part, **kw)
        # vacuity: the observers must have seen both accepted and rejected calls
        if cases and part in ("hp_remove", "hp_apply", "aead", "buffer"):
            if c.get("ok", 0) == 0:
                raise core.HarnessError("vacuous: no in-contract call of part %s returned normally" % part)
            if len(judge.outcomes[part]) < 3:
                raise core.HarnessError("vacuous: part %s produced %d distinct outcomes"
                                        % (part, len(judge.outcomes[part])))
        if part == "lib_recv" and cases and not judge.extra[part].get("reached_helper"):
            raise core.HarnessError("vacuous: no datagram of the grammar reached the C helpers")
        if part == "lib_send" and cases and not any(k.endswith("handshake_ok") for k in judge.extra[part]):
            raise core.HarnessError("vacuous: no library handshake completed in the sanitizer world")
    if judge.shim_checked == 0:
        raise core.HarnessError("vacuous: the libcrypto shim examined no range")
    ctx.cov["rule"] = ("every enumerated helper call, direct or made by the library: no sanitizer report, no shim "
                       "report, out-of-contract calls (w.r.t. sizes parsed from the current _crypto.c / the "
                       "reference Buffer) must raise, in-contract results equal the `cryptography` reference, "
                       "fixed-vector follow-up call unchanged, worker alive")
    ctx.cov["pruned_by_known_finding"] = total_pruned
    ctx.cov["pruned_classes"] = sorted(pool.pruned)
    ctx.cov["worker_deaths"] = len(pool.crashes)
    ctx.cov["out_of_contract_classes_scouted"] = nkeys
    ctx.cov["scout_wall_s"] = round(t_scout, 1)
    ctx.cov["exhaustive"] = total_pruned == 0 and ctx.only_parts is None
    ctx.assumptions += [
        "OpenSSL is trusted for the ranges it is handed (the shim checks the ranges, not libcrypto)",
        "uninitialised reads are not observable (ASan, no MSan); uninitialised Buffer bytes are never compared",
        "ASan quarantine reduced to 2 MB for speed (use-after-free window smaller; overflow detection unchanged)",
        "calls of an out-of-contract class that already killed a worker are not repeated "
        "(pruned_by_known_finding); until the defect is fixed that class is covered by its representatives only",
        "Python exceptions escaping receive_datagram/datagrams_to_send are C05's business and ignored here",
    ]
    for r in judge.records[:6]:
        ctx.sample({"case": r[3]["spec"].get("k"), "index": r[3]["only"], "detail": r[3].get("detail")})
    ctx.sample({"hp_remove_case": "packet length L x pn_offset o, e.g. (L=1600, o=0..1624)"})
    judge.report()


# -------------------------------------------------------------------- replay
def replay(ctx, obj):
    os.makedirs(CACHE, exist_ok=True)
    rep = obj["replay"]
    sig = obj.get("signature", {})
    print("replaying %s case(s) %s of batch %s" % (len(rep["only"]), rep["only"], json.dumps(rep["spec"])[:300]))
    w = Worker("replay", symbolize=True)

    def show(o):
        if o.get("t") == "trace":
            print("  [%s] %s" % (o.get("entry"), o.get("msg")))
        elif o.get("t") == "viol":
            print("  VIOLATION-OBSERVED %s: %s" % (json.dumps(o["sig"], sort_keys=True), o["what"]))

    try:
        kind, val, _ = run_single(w, rep, trace=True, on_line=show)
    finally:
        w.stop()
    if kind == "crash":
        mon, k, line = classify_crash(val)
        print("  worker died (exit %s): %s" % (val.get("rc"), line))
        for l in (val.get("stderr") or "").splitlines()[:9]:
            print("    | " + l)
        print("still violates: yes (process death, monitor=%s kind=%s)" % (mon, k))
        return 1
    if kind == "harness":
        raise core.HarnessError(val)
    bad = [v for v in val.get("viol", []) if not sig or _same(sig, v)] or val.get("viol", [])
    print("  batch finished: %s" % json.dumps(val.get("counts")))
    if bad:
        print("still violates: yes (%s)" % "; ".join(sorted({v["sig"]["monitor"] for v in bad})))
        return 1
    print("still violates: no")
    return 0
