"""C16 - peer stream bytes can never make the HTTP layers raise.

World: a real, connected client/server QuicConnection pair (in-process handshake on a
virtual clock, harness certificates) with a real H3Connection / H0Connection on the side
under test.  Hand-built StreamDataReceived / DatagramFrameReceived events (the bytes a
peer may place on its streams, encoded by the independent vlib.refh3) are fed to
handle_event().

Engine: breadth-first exploration with state merging (E2) over a finite menu of hostile
messages (E3 grammar), from four valid prefixes, each message under three chunkings,
to depth 2 (quick) / 3 (thorough, reduced menu at the last level).  Every transition is
executed on a *fresh* pair + fresh HTTP object by replaying prefix + history (the objects
hold OpenSSL keys, Buffers and pylsqpack coders and cannot be copied).

Oracle (no more than the property):
  1. handle_event() returns a list - no exception escapes;
  2. if the layer closed the connection, the error code is a member of
     aioquic.h3.connection.ErrorCode, quic.datagrams_to_send(now) returns normally and
     emits a closing packet which the real peer decrypts to CONNECTION_CLOSE carrying
     that code ("whatever text the error message contains").
"""
import copy
import os
import traceback

from vlib import core, explore  # noqa: F401
from vlib import certs, seams, refh3 as R

LEVEL = "model_checking"

from aioquic.h0.connection import H0Connection  # noqa: E402
from aioquic.h3.connection import ErrorCode, H3Connection  # noqa: E402
from aioquic.quic import events as qevents  # noqa: E402
from aioquic.quic.configuration import QuicConfiguration  # noqa: E402
from aioquic.quic.connection import QuicConnection  # noqa: E402
from aioquic.quic.events import DatagramFrameReceived, StreamDataReceived  # noqa: E402
from aioquic.quic.logger import QuicLogger  # noqa: E402

CLIENT_ADDR = ("1.2.3.4", 1234)
SERVER_ADDR = ("2.3.4.5", 4433)
VMAX = R.VARINT_MAX
H3_CODES = frozenset(int(c) for c in ErrorCode)
THOROUGH_BUDGET_S = int(os.environ.get("VERIF_C16_BUDGET", "1800"))  # wall seconds for the h3 part

REQ = [(b":method", b"GET"), (b":scheme", b"https"), (b":authority", b"localhost"),
       (b":path", b"/")]
RESP = [(b":status", b"200"), (b"server", b"x")]


# ===================================================================== world
_CFG = {}


def _configs(alpn):
    if alpn not in _CFG:
        cc = QuicConfiguration(is_client=True, alpn_protocols=[alpn], server_name="localhost",
                               max_datagram_frame_size=65536)
        cc.load_verify_locations(certs.path("ca.pem"))
        sc = QuicConfiguration(is_client=False, alpn_protocols=[alpn],
                               max_datagram_frame_size=65536)
        sc.load_cert_chain(certs.path("ed25519.pem"), certs.path("ed25519.key"))
        _CFG[alpn] = (cc, sc)
    return _CFG[alpn]


def connected_pair(alpn, logger, confirmed=True):
    """-> (client, server, now): handshake completed and confirmed on both sides.
    confirmed=False: the server datagrams carrying HANDSHAKE_DONE are lost, so the client
    has completed the handshake but not confirmed it (Initial/Handshake keys still alive;
    a server confirms as soon as it completes, so only a client can be in that state)."""
    seams.install()
    cc, sc = _configs(alpn)
    cc, sc = copy.copy(cc), copy.copy(sc)
    if logger:
        cc.quic_logger = QuicLogger()
        sc.quic_logger = QuicLogger()
    client = QuicConnection(configuration=cc)
    server = QuicConnection(
        configuration=sc,
        original_destination_connection_id=client.original_destination_connection_id,
    )
    now = 0.0
    client.connect(SERVER_ADDR, now=now)
    for _ in range(8):
        n = 0
        for d, _a in client.datagrams_to_send(now):
            server.receive_datagram(d, CLIENT_ADDR, now)
            n += 1
        lost = not confirmed and server._handshake_complete
        for d, _a in server.datagrams_to_send(now):
            if not lost:
                client.receive_datagram(d, SERVER_ADDR, now)
            n += 1
        now += 0.001
        if n == 0 or lost:
            break
    for q in (client, server):
        done = False
        while True:
            e = q.next_event()
            if e is None:
                break
            if isinstance(e, qevents.HandshakeCompleted):
                done = True
            if isinstance(e, qevents.ConnectionTerminated):
                raise core.HarnessError("handshake failed: %r" % (e,))
        if not done:
            raise core.HarnessError("handshake did not complete")
    if client._handshake_confirmed != confirmed or not server._handshake_confirmed:
        raise core.HarnessError("pair is not in the requested handshake state (client confirmed=%r)"
                                % client._handshake_confirmed)
    return client, server, now


def innermost(exc):
    """Qualified name of the innermost aioquic function on the traceback."""
    tb = exc.__traceback__
    where = None
    while tb is not None:
        code = tb.tb_frame.f_code
        if "/aioquic/" in code.co_filename:
            where = getattr(code, "co_qualname", code.co_name)
        tb = tb.tb_next
    return where


class World:
    N_CLIENT_REQUESTS = 8

    def __init__(self, proto, role, logger, handshake="confirmed"):
        # logger == "wt": the layer is created with enable_webtransport=True (and without qlog)
        self.wt = logger == "wt"
        logger = logger is True
        self.proto, self.role, self.logger, self.handshake = proto, role, logger, handshake
        if handshake != "confirmed" and role != "client":
            raise core.HarnessError("only a client can be complete but unconfirmed")
        client, server, self.now = connected_pair("h3" if proto == "h3" else "hq-interop", logger,
                                                 confirmed=handshake == "confirmed")
        self.quic, self.peer = (server, client) if role == "server" else (client, server)
        if proto == "h3":
            self.h = H3Connection(self.quic, enable_webtransport=self.wt)
        else:
            self.h = H0Connection(self.quic)
        if role == "client":
            # a peer can only answer on request streams this endpoint opened
            for _ in range(self.N_CLIENT_REQUESTS):
                sid = self.quic.get_next_available_stream_id()
                self.h.send_headers(sid, REQ if proto == "h3" else
                                    [(b":method", b"GET"), (b":path", b"/")], end_stream=True)
        # peer-initiated unidirectional stream ids
        self.uni_base = 2 if role == "server" else 3
        self.uni_next = self.uni_base + 12
        self.bidi_next = 0
        self.slots = {}  # slot -> [stream id, fin seen]
        self.raised = None
        self.trace = None

    # -------------------------------------------------------- stream slots
    def _fresh_uni(self):
        sid = self.uni_next
        self.uni_next += 4
        return sid

    def resolve(self, target):
        """-> (stream id, preface parts) or None when the message is not enabled here
        (a peer cannot send on a stream after its FIN)."""
        fixed = {"ctrl": (0, R.STREAM_CONTROL), "enc": (4, R.STREAM_QPACK_ENCODER),
                 "dec": (8, R.STREAM_QPACK_DECODER)}
        if target in fixed:
            off, stype = fixed[target]
            s = self.slots.get(target)
            if s is None:
                self.slots[target] = s = [self.uni_base + off, False]
                return s[0], [V(stype)]
            if s[1]:
                return None
            return s[0], []
        if target in ("ctrl2", "enc2", "dec2"):
            return self._fresh_uni(), [V(fixed[target[:-1]][1])]
        if target in ("push", "wtu", "unk"):
            s = self.slots.get(target)
            if s is None or s[1]:
                self.slots[target] = s = [self._fresh_uni(), False]
                pre = {"push": [V(R.STREAM_PUSH), V(0)], "wtu": [V(R.STREAM_WEBTRANSPORT), V(0)],
                       "unk": [V(R.grease(0))]}[target]
                return s[0], pre
            return s[0], []
        if target == "unkbig":
            return self._fresh_uni(), [V(VMAX)]
        if target == "rawuni":
            return self._fresh_uni(), []
        if target in ("req", "wtb"):
            s = self.slots.get(target)
            if s is None or s[1]:
                self.slots[target] = s = [self.bidi_next, False]
                self.bidi_next += 4
            return s[0], []
        if target == "newreq":
            sid = self.bidi_next
            self.bidi_next += 4
            self.slots["req"] = [sid, False]
            return sid, []
        if target == "blk":
            s = self.slots.get("blk")
            if s is None or s[1]:
                return None
            return s[0], []
        if target == "sbidi":  # server-initiated bidirectional stream (client role only)
            if self.role != "client":
                return None
            s = self.slots.get("sbidi")
            if s is None or s[1]:
                n = self.slots.get("sbidi_n", [1])[0]
                self.slots["sbidi_n"] = [n + 4]
                self.slots["sbidi"] = s = [n, False]
            return s[0], []
        if target == "dgram":
            return -1, []
        raise core.HarnessError("unknown target %r" % (target,))

    def stream_blocked(self, sid):
        st = self.h._stream.get(sid)
        return bool(st is not None and st.blocked)

    def peek(self, target):
        """Stream id resolve(target) would use (None = not enabled); no side effects."""
        saved = ({k: list(v) for k, v in self.slots.items()}, self.uni_next, self.bidi_next)
        r = self.resolve(target)
        self.slots, self.uni_next, self.bidi_next = saved
        return None if r is None else r[0]

    def slot_state(self):
        return tuple(sorted((k, tuple(v)) for k, v in self.slots.items())) + (
            self.uni_next, self.bidi_next)

    # ------------------------------------------------------------ delivery
    def deliver(self, msg, chunking):
        """Feed one message.  -> number of events, or None when not enabled.
        Sets self.raised when handle_event raised / returned a non-list."""
        r = self.resolve(msg["target"])
        if r is None:
            return None
        sid, pre = r
        parts = pre + msg["parts"]
        fin = msg["fin"]
        if msg["target"] == "dgram":
            evs = [DatagramFrameReceived(data=b"".join(p[1] for p in parts))]
        else:
            evs = [StreamDataReceived(data=d, end_stream=f, stream_id=sid)
                   for d, f in chunks_of(parts, fin, chunking)]
            if fin:
                for k, s in self.slots.items():
                    if len(s) == 2 and s[0] == sid:
                        s[1] = True
        total = 0
        names = []
        for ev in evs:
            if self.trace:
                self.trace("  -> %s" % describe_event(ev))
            try:
                out = self.h.handle_event(ev)
            except Exception as exc:  # noqa
                self.raised = exc
                if self.trace:
                    self.trace("     RAISED %s: %s" % (type(exc).__name__, exc))
                return total
            if not isinstance(out, list):
                self.raised = TypeError("handle_event returned %r" % (type(out).__name__,))
                return total
            if self.trace:
                self.trace("     <- %s" % ", ".join(describe_h3(e) for e in out) if out
                           else "     <- []")
            total += len(out)
            names += [type(e).__name__ for e in out]
        self.last_event_names = names
        return total

    def closed(self):
        ce = self.quic._close_event
        return None if ce is None else ce

    # ----------------------------------------------------- canonical state
    def canon(self):
        h = self.h
        if self.proto == "h0":
            return ("h0", tuple(sorted(h._buffer.items())),
                    tuple(sorted(h._headers_received.items())), self.slot_state())
        top = []
        for k, v in sorted(vars(h).items()):
            if k in ("_quic", "_quic_logger", "_decoder", "_encoder", "_stream"):
                continue
            if isinstance(v, dict):
                v = tuple(sorted((int(a), int(b)) for a, b in v.items()))
            top.append((k, v))
        streams = []
        for sid, st in sorted(h._stream.items()):
            f = []
            for k, v in sorted(vars(st).items()):
                if hasattr(v, "value") and hasattr(v, "name"):
                    v = v.name
                f.append((k, v))
            streams.append((sid, tuple(f)))
        return ("h3", tuple(top), tuple(streams), self.slot_state())


def describe_event(ev):
    if isinstance(ev, StreamDataReceived):
        d = ev.data
        return "StreamDataReceived(stream_id=%d, end_stream=%r, data[%d]=%s%s)" % (
            ev.stream_id, ev.end_stream, len(d), d[:48].hex(), "..." if len(d) > 48 else "")
    d = ev.data
    return "DatagramFrameReceived(data[%d]=%s)" % (len(d), d[:48].hex())


def describe_h3(e):
    s = repr(e)
    return s if len(s) < 160 else s[:157] + "..."


# ================================================================== messages
def V(n):
    return ("v", R.varint(n))


def RAW(b):
    return ("r", bytes(b))


def plen(parts):
    return sum(len(p[1]) for p in parts)


def FR(ftype, payload, length=None):
    """Frame as parts; `length` lies when given."""
    if isinstance(payload, (bytes, bytearray)):
        payload = [RAW(payload)] if payload else []
    return [V(ftype), V(plen(payload) if length is None else length)] + list(payload)


BIG = 2048


def chunks_of(parts, fin, chunking):
    data = b"".join(p[1] for p in parts)
    if chunking == "whole" or len(data) == 0:
        return [(data, fin)]
    if chunking == "bytes":
        step = 1 if len(data) <= BIG else 61
        out = [(data[i : i + step], False) for i in range(0, len(data), step)]
        if fin:
            out.append((b"", True))  # lone FIN
        return out
    # "varint": cut inside every multi-byte varint; if there is none, after the first byte
    cuts = []
    off = 0
    for kind, b in parts:
        if kind == "v" and len(b) > 1:
            cuts.append(off + 1)
        off += len(b)
    if not cuts and len(data) > 1:
        cuts = [1]
    out = []
    prev = 0
    for c in cuts:
        out.append((data[prev:c], False))
        prev = c
    out.append((data[prev:], fin))
    return out


CHUNKINGS = ("whole", "bytes", "varint")


def M(label, cls, target, parts, fin=False, qpack=False, lite=True):
    return {"label": label, "cls": cls, "target": target, "parts": list(parts), "fin": fin,
            "qpack": qpack, "lite": lite}


def fs(headers):
    return R.field_section(headers)


def valid_headers(role):
    return REQ if role == "server" else RESP


FRAME_TYPES = (
    (R.DATA, "DATA"), (R.HEADERS, "HEADERS"), (R.PRIORITY_H2, "PRIORITY"),
    (R.CANCEL_PUSH, "CANCEL_PUSH"), (R.SETTINGS, "SETTINGS"), (R.PUSH_PROMISE, "PUSH_PROMISE"),
    (R.GOAWAY, "GOAWAY"), (R.MAX_PUSH_ID, "MAX_PUSH_ID"), (R.DUPLICATE_PUSH_DRAFT, "DUP_PUSH"),
    (R.grease(0), "UNK21"), (R.grease(2), "UNK5f"), (VMAX, "UNKmax"),
)


def valid_payload(ftype, role):
    if ftype == R.DATA:
        return [RAW(b"abc")]
    if ftype == R.HEADERS:
        return [RAW(fs(valid_headers(role)))]
    if ftype == R.PRIORITY_H2:
        return [RAW(b"\x00\x00\x00\x00\x00")]
    if ftype in (R.CANCEL_PUSH, R.GOAWAY, R.DUPLICATE_PUSH_DRAFT):
        return [V(0)]
    if ftype == R.SETTINGS:
        return [V(1), V(4096), V(7), V(16)]
    if ftype == R.PUSH_PROMISE:
        return [V(0), RAW(fs(REQ))]
    if ftype == R.MAX_PUSH_ID:
        return [V(8)]
    return [RAW(b"xyz")]


def h3_menu(role):
    out = []
    hv = valid_headers(role)
    # ---- every frame type x length-field variants, on request / control / push streams
    for target in ("req", "ctrl", "push"):
        for ftype, name in FRAME_TYPES:
            vp = valid_payload(ftype, role)
            n = plen(vp)
            q = ftype in (R.HEADERS, R.PUSH_PROMISE) and target != "ctrl"
            c = "%s:%s" % (target, name)
            lite = target != "push" and ftype not in (R.PRIORITY_H2, R.DUPLICATE_PUSH_DRAFT, VMAX)
            out.append(M(c + ":len0", c, target, FR(ftype, []), qpack=False, lite=lite))
            out.append(M(c + ":len1", c, target, FR(ftype, b"\x00"), qpack=q, lite=False))
            out.append(M(c + ":exact", c, target, FR(ftype, vp), qpack=q, lite=lite))
            out.append(M(c + ":exact+FIN", c, target, FR(ftype, vp), fin=True, qpack=q, lite=False))
            out.append(M(c + ":exact+1cutFIN", c, target, FR(ftype, vp, n + 1), fin=True, lite=lite))
            out.append(M(c + ":exact+1", c, target, FR(ftype, vp, n + 1), lite=False))
            out.append(M(c + ":huge", c, target, FR(ftype, vp, VMAX), lite=lite))
            out.append(M(c + ":hugeFIN", c, target, FR(ftype, vp, VMAX), fin=True, lite=False))
        # truncated frame headers
        c = "%s:frame-header" % target
        for fin in (False, True):
            sfx = "+FIN" if fin else ""
            out.append(M(c + ":type-cut" + sfx, c, target, [RAW(b"\x40")], fin=fin, lite=fin))
            out.append(M(c + ":type8-cut" + sfx, c, target, [RAW(b"\xc0\x00\x00")], fin=fin, lite=False))
            out.append(M(c + ":len-cut" + sfx, c, target, [V(R.HEADERS), RAW(b"\x40")], fin=fin, lite=fin))
            out.append(M(c + ":len8-cut" + sfx, c, target, [V(R.SETTINGS), RAW(b"\xff\xff\xff")],
                         fin=fin, lite=False))
        out.append(M("%s:FIN" % target, "%s:lone-FIN" % target, target, [], fin=True))
        out.append(M("%s:empty" % target, "%s:empty" % target, target, [], lite=False))
    # ---- SETTINGS payloads (control stream)
    c = "ctrl:SETTINGS-payload"
    S = R.SETTINGS
    sv = [
        ("valid", [V(1), V(4096), V(7), V(16)]),
        ("valid-zero", [V(1), V(0), V(7), V(0)]),
        ("reserved0", [V(0), V(1)]),
        ("reserved2", [V(2), V(1)]),
        ("reserved5", [V(5), V(1)]),
        ("duplicate", [V(1), V(1), V(1), V(2)]),
        ("duplicate-grease", [V(0x21), V(1), V(0x21), V(1)]),
        ("odd-id-only", [V(1)]),
        ("odd-after-pair", [V(1), V(1), V(7)]),
        ("value-cut2", [V(1), RAW(b"\x40")]),
        ("value-cut8", [V(1), RAW(b"\xc0\x00\x00\x00")]),
        ("id-cut", [RAW(b"\x80\x00")]),
        ("id-huge", [V(VMAX), V(1)]),
        ("value-huge", [V(6), V(VMAX)]),
        ("capacity-huge", [V(1), V(VMAX)]),
        ("capacity-2^32", [V(1), V(1 << 32)]),
        ("blocked-huge", [V(7), V(VMAX)]),
        ("blocked-2^32", [V(1), V(4096), V(7), V(1 << 32)]),
        ("datagram=2", [V(0x33), V(2)]),
        ("datagram=1", [V(0x33), V(1)]),
        ("wt-without-datagram", [V(0x2B603742), V(1)]),
        ("wt+datagram", [V(0x33), V(1), V(0x2B603742), V(1)]),
        ("connect=2", [V(8), V(2)]),
        ("grease", [V(0x21), V(VMAX)]),
        ("1000-ids", [p for i in range(1000) for p in (V(0x40 + i), V(i))]),
    ]
    for name, pl in sv:
        out.append(M("%s:%s" % (c, name), c, "ctrl", FR(S, pl),
                     lite=name in ("valid", "reserved2", "duplicate", "odd-id-only", "value-cut2",
                                   "capacity-huge", "datagram=2", "wt-without-datagram")))
    # ---- MAX_PUSH_ID / GOAWAY / CANCEL_PUSH payloads (control stream)
    for ftype, name in ((R.MAX_PUSH_ID, "MAX_PUSH_ID"), (R.GOAWAY, "GOAWAY"),
                        (R.CANCEL_PUSH, "CANCEL_PUSH")):
        c = "ctrl:%s-payload" % name
        pv = [("empty", []), ("8", [V(8)]), ("3", [V(3)]), ("trailing", [V(8), RAW(b"\x00")]),
              ("cut2", [RAW(b"\x40")]), ("cut8", [RAW(b"\xc0\x00\x00\x00\x00\x00\x00")]),
              ("huge", [V(VMAX)]), ("nonminimal", [("v", R.varint_forced(8, 8))])]
        for pn, pl in pv:
            out.append(M("%s:%s" % (c, pn), c, "ctrl", FR(ftype, pl),
                         lite=pn in ("empty", "8", "3", "trailing", "cut2")))
    # ---- PUSH_PROMISE payloads (request stream)
    c = "req:PUSH_PROMISE-payload"
    pv = [("empty", []), ("id-only", [V(0)]), ("id-cut", [RAW(b"\x40")]),
          ("valid", [V(0), RAW(fs(REQ))]), ("valid-id9", [V(9), RAW(fs(REQ))]),
          ("id-huge", [V(VMAX), RAW(fs(REQ))]),
          ("bad-headers", [V(1), RAW(fs([(b":method", b"GET")]))]),
          ("garbage", [V(1), RAW(b"\xff\xff\xff\xff")]),
          ("blocked", [V(2), RAW(R.blocked_field_section())])]
    for pn, pl in pv:
        out.append(M("%s:%s" % (c, pn), c, "req", FR(R.PUSH_PROMISE, pl), qpack=len(pl) > 1,
                     lite=pn in ("empty", "id-only", "id-cut", "valid")))
    # ---- HEADERS payloads (request and push streams)
    long_upper = b"A" * 4096
    long_lower = b"n" * 4096
    many = [(b"h%d" % i, b"v") for i in range(10000)]
    hp = [
        ("empty-section", b"\x00\x00"),
        ("prefix-cut", b"\x00"),
        ("garbage", b"\xff" * 8),
        ("ric-huge", b"\xff\xff\xff\xff\xff\xff\xff\xff\xff\x7f\x00"),
        ("static-out-of-range", R.FIELD_SECTION_PREFIX + R.static_indexed_line(99)),
        ("static-index-huge", R.FIELD_SECTION_PREFIX + R.static_indexed_line(1 << 40)),
        ("name-length-lie", R.FIELD_SECTION_PREFIX + b"\x27\xff\xff\xff\xff\x0fab"),
        ("value-length-lie", R.FIELD_SECTION_PREFIX + b"\x21a\x7f\xff\xff\xff\xff\x0f"),
        ("huffman-name-garbage", R.FIELD_SECTION_PREFIX + b"\x2b\xff\xff\xff\x01v"),
        ("postbase-index", R.FIELD_SECTION_PREFIX + b"\x10"),
        ("invalid-uppercase", fs(hv + [(b"Upper", b"v")])),
        ("invalid-no-pseudo", fs([(b"a", b"b")])),
        ("name-4096-uppercase", fs(hv + [(long_upper, b"v")])),
        ("name-4096-lowercase", fs(hv + [(long_lower, b"v")])),
        ("name-1200-uppercase", fs(hv + [(b"A" * 1200, b"v")])),
        ("name-900-uppercase", fs(hv + [(b"A" * 900, b"v")])),
        ("name-4096-after-regular-pseudo", fs(hv + [(b"a", b"b"), (b":" + long_lower, b"v")])),
        ("value-4096-with-nul", fs(hv + [(b"a", b"v" * 4095 + b"\x00")])),
        ("name-4096-control-chars", fs(hv + [(b"\x01" * 4096, b"v")])),
        ("value-non-utf8", fs(hv + [(b"a", b"\xff\xfe")])),
        ("value-lone-continuation", fs(hv + [(b"a", b"\x80")])),
        ("pseudo-value-non-utf8", fs([(hv[0][0], hv[0][1])] + [(h[0], b"\xe9") for h in hv[1:]])),
        ("name-non-utf8", fs(hv + [(b"\xff", b"v")])),
        ("10000-headers", fs(hv + many)),
        ("10000-headers-last-invalid", fs(hv + many + [(b"Z", b"v")])),
        ("blocked", R.blocked_field_section()),
        # blocks like the one above (Required Insert Count 1), but once the insert has arrived its only line
        # turns out to refer to an entry that does not exist: the error surfaces when the stream is RESUMED
        ("blocked-then-invalid", R.section_prefix((1 % (2 * (4096 // 32))) + 1, 0, 0) + R.dynamic_indexed_line(5)),
        ("content-length-mismatch", fs(hv + [(b"content-length", b"5")])),
        ("content-length-2^64", fs(hv + [(b"content-length", b"18446744073709551616")])),
        ("content-length-4400-digits", fs(hv + [(b"content-length", b"9" * 4400)])),
    ]
    lite_h = ("empty-section", "garbage", "invalid-uppercase", "name-4096-uppercase",
              "value-non-utf8", "blocked", "blocked-then-invalid", "10000-headers-last-invalid")
    for target in ("req", "push"):
        c = "%s:HEADERS-payload" % target
        for pn, pl in hp:
            for fin in (False, True):
                if fin and (pn == "blocked-then-invalid" or
                            not pn.startswith(("content-length", "blocked", "empty", "invalid-upper"))):
                    continue
                out.append(M("%s:%s%s" % (c, pn, "+FIN" if fin else ""), c, target,
                             FR(R.HEADERS, pl), fin=fin, qpack=True,
                             lite=target == "req" and pn in lite_h and not fin))
    # ---- whole messages
    c = "req:message"
    H = FR(R.HEADERS, fs(hv))
    out.append(M(c + ":HEADERS+DATA+FIN", c, "newreq", H + FR(R.DATA, b"abc"), fin=True, qpack=True))
    out.append(M(c + ":HEADERS+DATA", c, "newreq", H + FR(R.DATA, b"abc"), qpack=True))
    out.append(M(c + ":HEADERS+DATA-cut+FIN", c, "newreq", H + FR(R.DATA, b"ab", 5), fin=True,
                 qpack=True, lite=False))
    out.append(M(c + ":HEADERS+HEADERS+HEADERS", c, "newreq", H + H + H, qpack=True))
    out.append(M(c + ":HEADERS+HEADERS+DATA", c, "newreq", H + H + FR(R.DATA, b"x"), qpack=True,
                 lite=False))
    out.append(M(c + ":HEADERS+grease+DATA0+FIN", c, "newreq",
                 H + FR(R.grease(1), b"gg") + FR(R.DATA, b""), fin=True, qpack=True, lite=False))
    out.append(M(c + ":cl5+DATA4+FIN", c, "newreq",
                 FR(R.HEADERS, fs(hv + [(b"content-length", b"5")])) + FR(R.DATA, b"abcd"),
                 fin=True, qpack=True, lite=False))
    # ---- WebTransport
    c = "wtb:WEBTRANSPORT_STREAM"
    W = R.WEBTRANSPORT_STREAM
    out.append(M(c + ":session+data", c, "wtb", [V(W), V(0), RAW(b"data")]))
    out.append(M(c + ":session+data+FIN", c, "wtb", [V(W), V(0), RAW(b"data")], fin=True, lite=False))
    out.append(M(c + ":session-only", c, "wtb", [V(W), V(4)], lite=False))
    out.append(M(c + ":session-only+FIN", c, "wtb", [V(W), V(4)], fin=True))
    out.append(M(c + ":session-cut+FIN", c, "wtb", [V(W), RAW(b"\x40")], fin=True))
    out.append(M(c + ":session-huge", c, "wtb", [V(W), V(VMAX), RAW(b"d")], lite=False))
    out.append(M(c + ":more-data", c, "wtb", [RAW(b"\x01\x02\x03")], lite=False))
    c = "wtu:stream"
    out.append(M(c + ":data", c, "wtu", [RAW(b"data")]))
    out.append(M(c + ":data+FIN", c, "wtu", [RAW(b"data")], fin=True, lite=False))
    out.append(M(c + ":FIN", c, "wtu", [], fin=True))
    out.append(M(c + ":session-cut", c, "rawuni", [V(R.STREAM_WEBTRANSPORT), RAW(b"\x40")], lite=False))
    out.append(M(c + ":session-cut+FIN", c, "rawuni", [V(R.STREAM_WEBTRANSPORT), RAW(b"\x40")],
                 fin=True))
    out.append(M(c + ":type-only+FIN", c, "rawuni", [V(R.STREAM_WEBTRANSPORT)], fin=True, lite=False))
    # ---- unidirectional stream openings
    c = "uni:opening"
    out.append(M(c + ":empty+FIN", c, "rawuni", [], fin=True))
    out.append(M(c + ":type-cut", c, "rawuni", [RAW(b"\x40")], lite=False))
    out.append(M(c + ":type-cut+FIN", c, "rawuni", [RAW(b"\x40")], fin=True))
    out.append(M(c + ":type8-cut+FIN", c, "rawuni", [RAW(b"\xc0\x00\x00\x00\x00\x00\x00")], fin=True,
                 lite=False))
    out.append(M(c + ":push-type-only", c, "rawuni", [V(R.STREAM_PUSH)], lite=False))
    out.append(M(c + ":push-type-only+FIN", c, "rawuni", [V(R.STREAM_PUSH)], fin=True))
    out.append(M(c + ":push-id-cut+FIN", c, "rawuni", [V(R.STREAM_PUSH), RAW(b"\x40")], fin=True))
    out.append(M(c + ":push-id-huge", c, "rawuni", [V(R.STREAM_PUSH), V(VMAX)], lite=False))
    out.append(M(c + ":unknown+data", c, "unk", [RAW(b"whatever")]))
    out.append(M(c + ":unknown+data+FIN", c, "unk", [RAW(b"whatever")], fin=True, lite=False))
    out.append(M(c + ":unknown-max-type", c, "unkbig", [RAW(b"\x00" * 9)], lite=False))
    out.append(M(c + ":unknown-type-0x40", c, "rawuni", [V(0x40), RAW(b"\x00")], lite=False))
    for t in ("ctrl2", "enc2", "dec2"):
        out.append(M("%s:type-only" % t, "uni:second-critical", t, []))
        out.append(M("%s:type+FIN" % t, "uni:second-critical", t, [], fin=True, lite=False))
    out.append(M("ctrl2:SETTINGS", "uni:second-critical", "ctrl2", FR(R.SETTINGS, []), lite=False))
    for t in ("enc", "dec"):
        out.append(M("%s:open-or-nothing" % t, "uni:critical-open", t, []))
        out.append(M("%s:FIN" % t, "uni:critical-FIN", t, [], fin=True))
    # ---- server-initiated bidirectional stream (client side only)
    if role == "client":
        c = "sbidi:frames"
        out.append(M(c + ":HEADERS", c, "sbidi", FR(R.HEADERS, fs(RESP)), qpack=True))
        out.append(M(c + ":DATA", c, "sbidi", FR(R.DATA, b"abc"), lite=False))
        out.append(M(c + ":FIN", c, "sbidi", [], fin=True, lite=False))
    # ---- blocked stream continuation (only enabled after the "blocked" prefix)
    c = "blk:continuation"
    out.append(M(c + ":FIN", c, "blk", [], fin=True))
    out.append(M(c + ":DATA", c, "blk", FR(R.DATA, b"abc")))
    out.append(M(c + ":DATA+FIN", c, "blk", FR(R.DATA, b"abc"), fin=True))
    out.append(M(c + ":garbage", c, "blk", [RAW(b"\xff" * 5)], lite=False))
    out.append(M(c + ":SETTINGS+FIN", c, "blk", FR(R.SETTINGS, []), fin=True, lite=False))
    # ---- QPACK encoder-stream instructions that make sense
    c = "enc:instructions"
    ins = R.enc_set_capacity(4096) + R.enc_insert_literal(b"x-dyn", b"1")
    out.append(M(c + ":capacity+insert", c, "enc", [RAW(ins)], qpack=True))
    out.append(M(c + ":capacity+insert-uppercase", c, "enc",
                 [RAW(R.enc_set_capacity(4096) + R.enc_insert_literal(b"X-Dyn", b"1"))], qpack=True))
    out.append(M(c + ":capacity+insert-pseudo", c, "enc",
                 [RAW(R.enc_set_capacity(4096) + R.enc_insert_literal(b":status", b"200"))],
                 qpack=True, lite=False))
    out.append(M(c + ":insert-without-capacity", c, "enc",
                 [RAW(R.enc_insert_literal(b"x-dyn", b"1"))], qpack=True))
    out.append(M(c + ":capacity-too-big", c, "enc", [RAW(R.enc_set_capacity(1 << 20))], qpack=True))
    out.append(M(c + ":insert-static-nameref", c, "enc",
                 [RAW(R.enc_set_capacity(4096) + R.enc_insert_static_nameref(0, b"h"))], qpack=True,
                 lite=False))
    out.append(M(c + ":duplicate-nonexistent", c, "enc", [RAW(b"\x00")], qpack=True, lite=False))
    c = "dec:instructions"
    out.append(M(c + ":section-ack-unknown", c, "dec", [RAW(b"\x80")], qpack=True))
    out.append(M(c + ":stream-cancel", c, "dec", [RAW(b"\x40")], qpack=True, lite=False))
    out.append(M(c + ":insert-count-increment-0", c, "dec", [RAW(b"\x00")], qpack=True))
    out.append(M(c + ":insert-count-increment-1", c, "dec", [RAW(b"\x01")], qpack=True, lite=False))
    # ---- datagrams
    c = "dgram"
    for name, b in (("empty", b""), ("0", b"\x00"), ("0+payload", b"\x00abc"), ("cut2", b"\x40"),
                    ("cut8", b"\xc0\x00\x00"), ("max-quarter-id", b"\xff" * 8),
                    ("unknown-stream", b"\x7f" + b"p" * 1200)):
        out.append(M("dgram:" + name, c, "dgram", [RAW(b)], lite=name in ("empty", "cut2", "0")))
    labels = [m["label"] for m in out]
    if len(set(labels)) != len(labels):
        dup = sorted(set(x for x in labels if labels.count(x) > 1))
        raise core.HarnessError("duplicate menu labels %r" % dup[:5])
    return out


QPACK_TAILS = (b"", b"\x00", b"\xff", b"\x80\x01", b"\xff" * 11, b"\x03abc\x01d")


def qpack_menu():
    """Every first byte x short tails, on the encoder and on the decoder stream."""
    out = []
    for target in ("enc", "dec"):
        c = "%s:raw-instruction" % target
        for b in range(256):
            for i, tail in enumerate(QPACK_TAILS):
                out.append(M("%s:%02x+tail%d" % (c, b, i), c, target, [RAW(bytes([b]) + tail)],
                             qpack=True, lite=False))
    return out


def h0_menu(role):
    out = []
    lines = [
        ("GET-path", b"GET /\r\n"), ("no-space", b"GET\r\n"), ("empty-line", b"\r\n"),
        ("nothing", b""), ("only-space", b" \r\n"), ("two-spaces", b"GET  /\r\n"),
        ("binary", b"\xff\x00\x80\r\n"), ("binary-no-crlf", b"\xff\x00\x80"),
        ("no-crlf", b"GET /"), ("lf-only", b"GET /\n"), ("cr-only", b"GET\r"),
        ("space-first", b" /\r\n"), ("tab", b"GET\t/\r\n"), ("long", b"G" * 5000 + b"\r\n"),
        ("crlf-crlf", b"\r\n\r\n"), ("nul", b"\x00\r\n"),
    ]
    for name, b in lines:
        for fin in (False, True):
            out.append(M("req:%s%s" % (name, "+FIN" if fin else ""), "h0:request-line", "req",
                         [RAW(b)], fin=fin))
            out.append(M("newreq:%s%s" % (name, "+FIN" if fin else ""), "h0:request-line",
                         "newreq", [RAW(b)], fin=fin))
    out.append(M("uni:data", "h0:uni", "rawuni", [RAW(b"GET\r\n")], fin=True))
    out.append(M("dgram:x", "h0:dgram", "dgram", [RAW(b"x")]))
    return out


_MENUS = {}


def menu_for(proto, role):
    k = (proto, role)
    if k not in _MENUS:
        if proto == "h0":
            ms = h0_menu(role)
        else:
            ms = h3_menu(role) + qpack_menu()
        _MENUS[k] = (ms, {m["label"]: m for m in ms})
    return _MENUS[k]


# ------------------------------------------------------------------ prefixes
def prefix_messages(proto, role, prefix, wt=False):
    if proto == "h0" or prefix == "none":
        return []
    hv = valid_headers(role)
    st = [V(1), V(4096), V(7), V(16)]
    if wt:
        # the peer enables extended CONNECT, HTTP datagrams and WebTransport as well
        st += [V(0x8), V(1), V(0x33), V(1), V(0x2B603742), V(1)]
    out = [M("P:SETTINGS", "P", "ctrl", FR(R.SETTINGS, st))]
    if prefix == "settings":
        return out
    out.append(M("P:request", "P", "newreq", FR(R.HEADERS, fs(hv)) + FR(R.DATA, b"hello"), fin=True))
    if prefix == "request":
        return out
    out.append(M("P:enc-open", "P", "enc", []))
    out.append(M("P:blocked", "P", "newreq", FR(R.HEADERS, R.blocked_field_section())))
    return out


PREFIXES = ("none", "settings", "request", "blocked")


def norm_config(config):
    config = tuple(config)
    return config if len(config) == 5 else config + ("confirmed",)


class PrefixRaised(Exception):
    def __init__(self, world, msg):
        self.world, self.msg = world, msg


def build_world(config, history, trace=None):
    """Fresh pair + layer, prefix and history replayed.  -> World (raised/closed possible)."""
    proto, role, logger, prefix, handshake = norm_config(config)
    w = World(proto, role, logger, handshake)
    w.trace = trace
    for m in prefix_messages(proto, role, prefix, wt=(logger == "wt")):
        if trace:
            trace("prefix %s" % m["label"])
        n = w.deliver(m, "whole")
        if n is not None and w.raised is not None:
            raise PrefixRaised(w, m)  # an exception on *valid* input is a violation too
        if n is None or w.closed() is not None:
            raise core.HarnessError("valid prefix %r failed: n=%r closed=%r"
                                    % (m["label"], n, w.closed()))
        if m["label"] == "P:blocked":
            w.slots["blk"] = w.slots.pop("req")
            st = w.h._stream.get(w.slots["blk"][0])
            if st is None or not st.blocked:
                raise core.HarnessError("prefix 'blocked' did not block the stream")
    byl = menu_for(proto, role)[1]
    for label, chunking in history:
        if trace:
            trace("history %s [%s]" % (label, chunking))
        n = w.deliver(byl[label], chunking)
        if n is None or w.raised is not None or w.closed() is not None:
            raise core.HarnessError("history replay diverged at %r: n=%r raised=%r closed=%r"
                                    % (label, n, w.raised, w.closed()))
    return w


def judge(w, msg, trace=None):
    """After the transition: -> (outcome, violation | None)."""
    entry = "%s.handle_event" % type(w.h).__name__
    if w.raised is not None:
        exc = w.raised
        sig = {"monitor": "handle_event_raises", "exc": type(exc).__name__,
               "where": innermost(exc), "entry": entry, "input": msg["cls"]}
        what = "%s raised %s (%s) in %s on %s [%s side, logger %s, handshake %s]" % (
            entry, type(exc).__name__, exc, sig["where"], msg["label"], w.role,
            "on" if w.logger else "off", w.handshake)
        return ("exc", type(exc).__name__, sig["where"]), (sig, what)
    ce = w.closed()
    if ce is None:
        return ("open", tuple(sorted(set(getattr(w, "last_event_names", []))))), None
    code = ce.error_code
    reason_len = len(ce.reason_phrase)
    if trace:
        trace("  layer closed the connection: code=0x%x reason[%d]=%r" % (
            code, reason_len, ce.reason_phrase[:80]))
    if w.proto == "h3" and int(code) not in H3_CODES:
        sig = {"monitor": "close_code_not_h3", "code": int(code), "entry": entry,
               "input": msg["cls"]}
        return ("closed", int(code)), (sig, "closed with 0x%x which is not an HTTP/3 error code on %s"
                                       % (code, msg["label"]))
    # the transport must still be able to emit its closing packet
    try:
        dgrams = w.quic.datagrams_to_send(w.now)
    except Exception as exc:  # noqa
        if trace:
            trace("  datagrams_to_send RAISED %s" % type(exc).__name__)
            trace(traceback.format_exc())
        sig = {"monitor": "datagrams_to_send_raises_after_close", "exc": type(exc).__name__,
               "where": innermost(exc), "entry": "QuicConnection.datagrams_to_send",
               "input": msg["cls"]}
        what = ("after %s closed the connection (code 0x%x, reason of %d characters) on %s, "
                "QuicConnection.datagrams_to_send raised %s in %s" % (
                    entry, code, reason_len, msg["label"], type(exc).__name__, sig["where"]))
        return ("closed", int(code), "dts-raises"), (sig, what)
    seen = None
    try:
        for d, _a in dgrams:
            w.peer.receive_datagram(d, CLIENT_ADDR if w.role == "client" else SERVER_ADDR, w.now)
        # a draining endpoint reports ConnectionTerminated when its drain timer fires
        t = w.peer.get_timer()
        if t is not None:
            w.peer.handle_timer(now=t)
        while True:
            e = w.peer.next_event()
            if e is None:
                break
            if isinstance(e, qevents.ConnectionTerminated):
                seen = e
    except Exception as exc:  # noqa
        raise core.HarnessError("peer raised while receiving the closing packet: %r" % (exc,))
    if trace:
        trace("  closing datagrams: %d; peer saw %r" % (len(dgrams), seen and (
            seen.error_code, seen.reason_phrase[:60])))
    # RFC 9000 10.2.3: in Initial/Handshake packets an application close is converted to the
    # transport code APPLICATION_ERROR; an unconfirmed client also sends those packets
    acceptable = (code,) if w.handshake == "confirmed" else (code, 0xC)
    if not dgrams or seen is None or seen.error_code not in acceptable:
        fits = len(ce.reason_phrase.encode("utf8", "replace")) + 64 <= w.quic._max_datagram_size
        sig = {"monitor": "closing_packet_not_delivered", "entry": "QuicConnection.datagrams_to_send",
               "reason": "fits-a-packet" if fits else "longer-than-a-packet", "input": msg["cls"]}
        what = ("after close(0x%x, reason of %d characters) on %s [%s side, handshake %s]: %d "
                "datagrams emitted, peer saw %r"
                % (code, reason_len, msg["label"], w.role, w.handshake, len(dgrams), seen))
        return ("closed", int(code), "not-delivered"), (sig, what)
    # once done, the layer ignores further events
    try:
        out = w.h.handle_event(StreamDataReceived(data=b"\x00", end_stream=False, stream_id=w.uni_next))
    except Exception as exc:  # noqa
        sig = {"monitor": "handle_event_raises", "exc": type(exc).__name__, "where": innermost(exc),
               "entry": entry, "input": "after-close"}
        return ("closed", int(code), "raises-after"), (sig, "handle_event raised %r after close" % exc)
    if out != []:
        raise core.HarnessError("events after close: %r" % (out,))
    return ("closed", int(code), "long" if reason_len > 500 else "short",
            "converted" if seen.error_code != code else "as-is"), None


# ------------------------------------------------------------------ workers
def chunkings_at(level, tier, msg):
    """Chunkings tried for a message at BFS level `level` (0 = first hostile message)."""
    if msg["target"] == "dgram":
        chs = ("whole",)
    elif level == 0:
        if msg["cls"].endswith(":raw-instruction"):
            chs = ("whole",) if tier == "quick" else ("whole", "bytes")
        else:
            chs = CHUNKINGS
    elif tier == "quick":
        chs = ("whole",)
    else:
        chs = ("whole", "bytes") if level == 1 else ("whole",)
    out, seen = [], set()
    for ch in chs:
        c = tuple(chunks_of(msg["parts"], msg["fin"], ch))
        if c in seen:
            continue
        seen.add(c)
        out.append(ch)
    return out


# third level (thorough): complete depth-3 exploration over this small representative menu
CORE_LABELS = frozenset([
    "ctrl:SETTINGS-payload:valid", "ctrl:SETTINGS:exact", "ctrl:MAX_PUSH_ID-payload:8",
    "ctrl:MAX_PUSH_ID-payload:3", "ctrl:GOAWAY-payload:8", "ctrl:UNK21:exact",
    "ctrl:HEADERS:exact+1", "ctrl:frame-header:len-cut", "ctrl:FIN",
    "req:HEADERS:exact", "req:HEADERS:exact+FIN", "req:DATA:exact", "req:DATA:exact+1",
    "req:UNK21:exact", "req:PUSH_PROMISE-payload:valid", "req:HEADERS-payload:blocked",
    "req:FIN", "req:frame-header:type-cut", "req:HEADERS-payload:content-length-mismatch",
    "req:message:HEADERS+DATA", "req:HEADERS-payload:value-non-utf8",
    "push:HEADERS:exact", "push:DATA:exact", "push:FIN",
    "enc:instructions:capacity+insert", "enc:open-or-nothing", "enc:FIN",
    "dec:instructions:section-ack-unknown", "dec:instructions:insert-count-increment-0",
    "dec:open-or-nothing", "blk:continuation:FIN", "blk:continuation:DATA",
    "wtb:WEBTRANSPORT_STREAM:session+data", "wtb:WEBTRANSPORT_STREAM:more-data",
    "wtu:stream:data", "uni:opening:unknown+data", "ctrl2:type-only", "dgram:0",
    "sbidi:frames:HEADERS",
])


def successors(w, msg, conn_changed, sid, tier, next_level, depth, all_core=False):
    """Menu indices worth trying from the state just reached (level >= 1).

    Reduced menu: no raw QPACK sweep; quick and the last thorough level use the 'lite' menu.
    Partial-order reduction: if the last message changed nothing but the H3Stream of the
    stream it was delivered on (conn_changed == ()), a following message on a *different*
    stream behaves as it does from the parent state (explored one level up) - only
    same-stream messages follow; if it only registered a critical stream id, also the
    targets whose uniqueness check reads that id; conn_changed is True = full menu."""
    if next_level >= depth:
        return []
    if msg["cls"].endswith(":raw-instruction") or msg["target"] == "dgram":
        return []
    ms = menu_for(w.proto, w.role)[0]
    lite_only = w.proto == "h3" and tier == "quick"
    core_only = w.proto == "h3" and next_level >= 2
    if core_only and not all_core:
        return []
    out = []
    for i, m in enumerate(ms):
        if m["cls"].endswith(":raw-instruction"):
            continue
        if lite_only and not m["lite"]:
            continue
        if core_only and m["label"] not in CORE_LABELS:
            continue
        p = w.peek(m["target"])
        if p is None:
            continue
        if conn_changed is not True and p != sid and m["target"] not in conn_changed:
            continue
        out.append(i)
    return out


# connection-level fields whose only readers are the uniqueness checks of the named targets
ONLY_READ_BY = {
    "_peer_control_stream_id": ("ctrl", "ctrl2"),
    "_peer_encoder_stream_id": ("enc", "enc2"),
    "_peer_decoder_stream_id": ("dec", "dec2"),
}


def dependents(before, after, msg):
    """True = anything may depend on the change; else the tuple of targets that may."""
    if msg["qpack"]:
        return True
    b = dict(before)
    out = ()
    for k, v in after:
        if b.get(k, "<absent>") != v:
            if k not in ONLY_READ_BY:
                return True
            out += ONLY_READ_BY[k]
    return out


def work(item):
    """item = (config, history, [(menu index, chunking), ...], tier, level, depth)
    -> list of (index, chunking, key, outcome, violation, successor indices)."""
    config, history, transitions, tier, level, depth = item
    proto, role, logger, prefix, handshake = norm_config(config)
    ms, byl = menu_for(proto, role)
    res = []
    for idx, chunking in transitions:
        msg = ms[idx]
        try:
            w = build_world(config, history)
        except PrefixRaised as pr:
            outcome, viol = judge(pr.world, pr.msg)
            res.append((idx, chunking, None, outcome, viol, None))
            continue
        before = w.canon()[1] if proto == "h3" else None
        sid = w.peek(msg["target"])
        blocked = proto == "h3" and w.stream_blocked(sid)
        n = w.deliver(msg, chunking)
        if n is None:
            res.append((idx, chunking, None, "disabled", None, None))
            continue
        outcome, viol = judge(w, msg)
        key = succ = None
        if viol is None and outcome[0] == "open":
            key = core.stable_hash((config, w.canon(),
                                    [lab for lab, _c in history if byl[lab]["qpack"]]
                                    + ([msg["label"]] if msg["qpack"] else [])))
            if proto != "h3" or blocked or w.stream_blocked(sid):
                # a stream blocked on QPACK is referenced by the decoder: encoder-stream
                # messages depend on it
                conn_changed = True
            else:
                conn_changed = dependents(before, w.canon()[1], msg)
            all_core = all(lab in CORE_LABELS for lab, _c in history) and msg["label"] in CORE_LABELS
            succ = successors(w, msg, conn_changed, sid, tier, level + 1, depth, all_core)
        res.append((idx, chunking, key, outcome, viol, succ))
    return res


def configs_for(proto, tier):
    out = []
    if proto == "h0":
        for role in ("server", "client"):
            out.append(("h0", role, False, "none", "confirmed"))
        return out
    for role in ("server", "client"):
        for logger in (False, True):
            for prefix in PREFIXES:
                out.append(("h3", role, logger, prefix, "confirmed"))
    # the layer created with enable_webtransport=True (its SETTINGS, datagram and WEBTRANSPORT_STREAM paths differ);
    # quick: first level only
    for role in ("server", "client"):
        for prefix in PREFIXES:
            out.append(("h3", role, "wt", prefix, "confirmed"))
    # client whose HANDSHAKE_DONE was lost: the close goes out in Handshake and 1-RTT packets
    # (first level only; logger off)
    for prefix in PREFIXES:
        out.append(("h3", "client", False, prefix, "unconfirmed"))
    return out


def root_indices(proto, cfg, tier):
    ms = menu_for(proto, cfg[1])[0]
    out = []
    for i, m in enumerate(ms):
        if tier == "quick" and m["cls"].endswith(":raw-instruction") and m["label"][-1] in "135":
            continue  # quick: tails 0, 2, 4 (empty, ff, ff*11) of the raw QPACK sweep
        if m["cls"].endswith(":raw-instruction") and (
                cfg[2] or cfg[3] not in ("settings", "blocked") or cfg[4] != "confirmed"):
            # the raw QPACK instruction sweep runs after 'settings' and 'blocked' only, without
            # logger (that path logs nothing beyond the stream type)
            continue
        out.append(i)
    return out


def explore_proto(ctx, proto, depth, batch=24, time_cap=None):
    tier = ctx.tier
    frontier = [(cfg, [], root_indices(proto, cfg, tier)) for cfg in configs_for(proto, tier)]
    seen = set()
    states = len(frontier)
    transitions = 0
    outcomes = {}
    viols = []
    per_level = []
    capped = None
    for level in range(depth):
        if not frontier:
            break
        items = []
        skipped_cfg = 0
        for cfg, hist, succ in frontier:
            if level >= 1 and proto == "h3" and (cfg[2] is False or (cfg[2] == "wt" and tier == "quick")):
                # deeper levels: logger-on configurations only - a superset of the code
                # paths of the logger-off ones
                skipped_cfg += 1
                continue
            ms = menu_for(proto, cfg[1])[0]
            tr = [(i, ch) for i in succ for ch in chunkings_at(level, tier, ms[i])]
            for i in range(0, len(tr), batch):
                items.append((cfg, hist, tr[i : i + batch], tier, level, depth))
        planned = sum(len(it[2]) for it in items)
        if time_cap is not None and level >= 1:
            # honest cap: do not start a level that cannot finish in the remaining budget
            # measured cost per transition so far (deeper levels replay a longer history: x1.5)
            per = 1.5 * ctx.elapsed() / max(1, transitions) if transitions else 0.004
            if ctx.elapsed() + planned * per > time_cap:
                capped = ("level %d not run: %d planned transitions would exceed the %ds budget "
                          "(%d states unexpanded)" % (level + 1, planned, time_cap, len(frontier)))
                break
        results = core.pmap(work, items, chunksize=1)
        nxt = []
        n_level = 0
        for (cfg, hist, _tr, _t, _l, _d), res in zip(items, results):
            ms = menu_for(proto, cfg[1])[0]
            for idx, chunking, key, outcome, viol, succ in res:
                if outcome == "disabled":
                    continue
                n_level += 1
                label = ms[idx]["label"]
                ok = (proto, ms[idx]["cls"]) + tuple(outcome)
                outcomes[ok] = outcomes.get(ok, 0) + 1
                if viol is not None:
                    viols.append((len(hist), idx, viol[0], viol[1],
                                  {"config": list(cfg), "history": hist,
                                   "last": [label, chunking]}))
                    continue
                if key is not None and key not in seen:
                    seen.add(key)
                    nxt.append((cfg, hist + [[label, chunking]], succ))
        transitions += n_level
        states += len(nxt)
        per_level.append({"level": level + 1, "transitions": n_level, "new_states": len(nxt),
                          "states_not_expanded_logger_off": skipped_cfg})
        print("[%s] %s level %d: %d transitions, %d new states, %.0fs" % (
            ctx.pid, proto, level + 1, n_level, len(nxt), ctx.elapsed()))
        frontier = nxt
    return {"states": states, "transitions": transitions, "outcomes": outcomes, "viols": viols,
            "levels": per_level, "capped": capped, "unexpanded": len(frontier)}


# ------------------------------------------------------------------ reason-length sweep
SWEEP_CONFIGS = (("h3", "server", False, "settings", "confirmed"),
                 ("h3", "client", False, "settings", "confirmed"),
                 ("h3", "client", False, "settings", "unconfirmed"),
                 ("h3", "server", True, "settings", "confirmed"))


def sweep_msg(role, n):
    """HEADERS whose invalid (upper-case) field name has n bytes: the layer quotes the name in the
    close reason, so the peer chooses the length of the reason phrase byte by byte."""
    c = "req:HEADERS-payload"
    return M("%s:name-%d-uppercase" % (c, n), c, "req",
             FR(R.HEADERS, fs(list(valid_headers(role)) + [(b"A" * n, b"v")])), qpack=True)


def sweep_work(item):
    config, lo, hi = item
    out = []
    for n in range(lo, hi):
        msg = sweep_msg(config[1], n)
        w = build_world(config, [])
        if w.deliver(msg, "whole") is None:
            raise core.HarnessError("sweep message not enabled")
        outcome, viol = judge(w, msg)
        ce = w.closed()
        out.append((n, len(ce.reason_phrase) if ce is not None else None, outcome, viol))
    return out


def reason_sweep(ctx, lo, hi):
    """Every reason-phrase length in a window around one packet (quick) / from empty to well beyond
    a packet (thorough): 'whatever text the error message contains' includes every LENGTH - the
    truncation arithmetic of the closing packet has off-by-few windows that three sample lengths
    cannot hit."""
    items = [(cfg, a, min(a + 25, hi)) for cfg in SWEEP_CONFIGS for a in range(lo, hi, 25)]
    res = core.pmap(sweep_work, items, ordered=True)
    outcomes, lens, n_runs = {}, set(), 0
    reported = set()
    for (cfg, _a, _b), rows in zip(items, res):
        for n, rlen, outcome, viol in rows:
            n_runs += 1
            lens.add(rlen)
            outcomes[outcome] = outcomes.get(outcome, 0) + 1
            if viol is not None:
                sig, what = viol
                sig = dict(sig, part="reason_sweep")
                k = core.stable_hash((sig, cfg))
                if k in reported:
                    continue
                reported.add(k)
                ctx.violation(sig, "[reason-length sweep, %s side, handshake %s, logger %s] %s" % (
                    cfg[1], cfg[4], "on" if cfg[2] else "off", what),
                    {"part": "reason_sweep", "config": list(cfg), "name_length": n})
    if None in lens or len(lens) < (hi - lo):
        raise core.HarnessError("reason sweep: the layer did not close with a distinct reason length per input")
    ctx.part("reason_sweep", evaluations=n_runs, transitions=n_runs, configurations=len(SWEEP_CONFIGS),
             name_lengths=[lo, hi - 1], reason_lengths=[min(lens), max(lens)],
             distinct_nontrivial=len(outcomes))


def report(ctx, name, res):
    ctx.part(name, states=res["states"], transitions=res["transitions"],
             evaluations=res["transitions"], distinct_nontrivial=len(res["outcomes"]),
             levels=res["levels"])
    if len(res["outcomes"]) < 3:
        raise core.HarnessError("%s: vacuous exploration (%d outcomes)" % (name, len(res["outcomes"])))
    if res["capped"]:
        ctx.cap("%s: %s" % (name, res["capped"]))
    res["viols"].sort(key=lambda t: (t[0], t[1], core.jdump(t[2], sort_keys=True),
                                     core.jdump(t[4])))
    seen = set()
    pruned = 0
    for depth, _idx, sig, what, rp in res["viols"]:
        pruned += 1
        k = core.stable_hash(sig)
        if k in seen:
            continue
        seen.add(k)
        ctx.violation(sig, what, rp)
    return pruned


def run(ctx):
    quick = ctx.tier == "quick"
    depth = 2 if quick else 3
    parts = ctx.only_parts
    pruned = 0
    hist = {}
    if not parts or "h3" in parts:
        res = explore_proto(ctx, "h3", depth, time_cap=None if quick else THOROUGH_BUDGET_S)
        pruned += report(ctx, "h3", res)
        for k, c in res["outcomes"].items():
            o = "/".join(str(x) for x in k[2:])
            hist[o] = hist.get(o, 0) + c
    if not parts or "h0" in parts:
        res = explore_proto(ctx, "h0", 2 if quick else 3)
        pruned += report(ctx, "h0", res)
    if not parts or "reason_sweep" in parts:
        if quick:
            reason_sweep(ctx, 1000, 1300)
        else:
            reason_sweep(ctx, 0, 2400)
    ms, _ = menu_for("h3", "server")
    ctx.sample({"menu_size_h3_server": len(ms), "menu_size_h3_client": len(menu_for("h3", "client")[0]),
                "first_labels": [m["label"] for m in ms[:6]]})
    ctx.cov["outcome_histogram"] = dict(sorted(hist.items()))
    ctx.cov["pruned_by_violation_or_known_finding"] = pruned
    ctx.cov["rule"] = (
        "breadth-first exploration with state merging on the real H3Connection/H0Connection over "
        "a freshly connected real QuicConnection pair per transition: every menu message (frame "
        "types x length lies x payload variants x stream kinds, raw QPACK instructions, "
        "datagrams) x chunkings {whole, byte-wise + lone FIN, split inside every varint} after "
        "prefixes {none, SETTINGS, +request, +blocked request}, roles {server, client}, client also with an unconfirmed handshake (first level), qlog "
        "{off, on}; oracle: handle_event returns a list; after a close the code is an H3 "
        "ErrorCode, datagrams_to_send returns and the peer decrypts CONNECTION_CLOSE with it"
    )
    ctx.cov["bounds"] = {"depth": depth, "prefixes": PREFIXES, "chunkings": CHUNKINGS,
                         "core_menu": sorted(CORE_LABELS)}
    ctx.cov["exhaustive"] = not ctx.caps_hit
    ctx.assumptions += [
        "events are hand-built (the transport under the layer is real and connected, but the "
        "peer's stream bytes are injected as StreamDataReceived, not sent over the wire)",
        "no bytes follow a FIN on the same stream (the transport would refuse them)",
        "state merging key = python-visible H3Connection/H3Stream fields + stream-slot table + "
        "ordered labels of QPACK-relevant messages in the history",
        "subtrees behind an exception or a close are cut",
        "partial-order reduction below the first level: a message that changed only the "
        "H3Stream of its own stream (no connection-level field, no QPACK state, stream not "
        "blocked) is followed by same-stream messages only; messages on other streams were "
        "explored from the parent state (H3Connection keeps per-stream state in H3Stream "
        "objects looked up by stream id)",
        "levels below the first: logger-on configurations only; the raw QPACK first-byte sweep "
        "runs at the first level only; quick level 2 = 'lite' menu, chunking 'whole'; thorough "
        "level 2 = full menu x {whole, byte-wise}, level 3 = complete over the %d-message core "
        "menu (both earlier messages and the third from it), chunking 'whole'" % len(CORE_LABELS),
    ]


def replay(ctx, obj):
    rp = obj["replay"]
    config = norm_config(rp["config"])
    proto, role, logger, prefix, handshake = config
    if rp.get("part") == "reason_sweep":
        msg = sweep_msg(role, rp["name_length"])
        print("config: proto=%s role=%s logger=%s prefix=%s handshake=%s" % config)
        w = build_world(config, [], trace=print)
        print("message under test: %s" % msg["label"])
        w.deliver(msg, "whole")
        outcome, viol = judge(w, msg, trace=print)
        print("outcome:", outcome)
        if viol is not None:
            print("VIOLATION property=C16 (replayed): %s" % viol[1])
            return 1
        print("no violation on replay")
        return 0
    label, chunking = rp["last"]
    print("config: proto=%s role=%s logger=%s prefix=%s handshake=%s" % config)
    try:
        w = build_world(config, [tuple(x) for x in rp["history"]], trace=print)
    except PrefixRaised as pr:
        outcome, viol = judge(pr.world, pr.msg, trace=print)
        print("VIOLATION property=C16 (replayed): %s" % viol[1])
        return 1
    msg = menu_for(proto, role)[1][label]
    print("message under test: %s [%s]" % (label, chunking))
    n = w.deliver(msg, chunking)
    if n is None:
        print("message not enabled")
        return 2
    outcome, viol = judge(w, msg, trace=print)
    print("outcome:", outcome)
    if viol is not None:
        print("VIOLATION property=C16 (replayed): %s" % viol[1])
        print("  signature: %s" % core.jdump(viol[0], sort_keys=True))
        return 1
    print("no violation on replay")
    return 0
