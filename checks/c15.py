"""C15 - HTTP/3 applications only ever see well-formed messages.

Engine: exhaustive enumeration (E3) of a finite header-block grammar, every case run on
a fresh real H3Connection (server or client side) fed HEADERS / PUSH_PROMISE / DATA frames
whose field sections come from the independent literal-only QPACK encoder in vlib.refh3
(arbitrary name/value bytes reach aioquic's decoder).  Oracle: vlib.refh3.check_headers,
an independent validator implementing the rule list of the property text, three-valued:

  REJECT  a listed rule is broken  => the connection is closed with H3_MESSAGE_ERROR and no
          HeadersReceived / PushPromiseReceived is produced for that block;
  ACCEPT  no rule broken, nothing the property leaves open => the event is produced with
          exactly those headers and the connection stays open;
  EITHER  no listed rule broken but the block has an aspect the property is silent about
          (non-initial colon, missing :scheme/:path/:authority, :protocol, empty name,
          content-length that is not 1*DIGIT, transfer-encoding ...) => both outcomes
          conform, but the event, if produced, must carry exactly those headers.

End of stream: a 1*DIGIT content-length must equal the DataReceived bytes delivered, else
H3_MESSAGE_ERROR and no event with stream_ended=True.
"""
import itertools

from vlib import core, refh3 as R

LEVEL = "exploration"

from aioquic.h3.connection import ErrorCode, H3Connection  # noqa: E402
from aioquic.h3.events import (  # noqa: E402
    DataReceived,
    HeadersReceived,
    PushPromiseReceived,
)
from aioquic.quic.configuration import QuicConfiguration  # noqa: E402
from aioquic.quic.events import StreamDataReceived  # noqa: E402

ALPHABET = bytes([0x00, 0x09, 0x0A, 0x0D, 0x20, 0x21, 0x3A, 0x41, 0x5A, 0x61, 0x7F, 0x80, 0xFF])
PSEUDO = (
    (b":method", b"GET"),
    (b":scheme", b"https"),
    (b":authority", b"localhost"),
    (b":path", b"/"),
    (b":protocol", b"websocket"),
    (b":status", b"200"),
    (b":unknown", b"x"),
)
KINDS = ("request", "response", "trailers_req", "trailers_resp", "push_promise", "push_response")
VKIND = {
    "request": R.REQUEST,
    "response": R.RESPONSE,
    "trailers_req": R.TRAILERS,
    "trailers_resp": R.TRAILERS,
    "push_promise": R.PUSH_PROMISE_KIND,
    "push_response": R.RESPONSE,
}
REQ_BASE = [(b":method", b"GET"), (b":scheme", b"https"), (b":authority", b"localhost"),
            (b":path", b"/")]
RESP_BASE = [(b":status", b"200")]
MESSAGE_ERROR = R.H3_MESSAGE_ERROR
assert int(ErrorCode.H3_MESSAGE_ERROR) == MESSAGE_ERROR


# ------------------------------------------------------------------ the world
class RecordingQuic:
    """Stands for the QuicConnection: exactly the attributes/methods H3Connection uses;
    records close() and swallows outgoing stream data."""

    def __init__(self, is_client):
        self.configuration = _config(is_client)
        self.closed = None
        self.close_calls = 0
        self._quic_logger = None
        self._remote_max_datagram_frame_size = 65536
        self._next_bidi = 0 if is_client else 1
        self._next_uni = 2 if is_client else 3
        self.sent = 0

    def close(self, error_code=0, frame_type=None, reason_phrase=""):
        self.close_calls += 1
        if self.closed is None:
            self.closed = (int(error_code), reason_phrase)

    def get_next_available_stream_id(self, is_unidirectional=False):
        if is_unidirectional:
            sid = self._next_uni
            self._next_uni += 4
        else:
            sid = self._next_bidi
            self._next_bidi += 4
        return sid

    def send_stream_data(self, stream_id, data, end_stream=False):
        self.sent += len(data)

    def send_datagram_frame(self, data):
        self.sent += len(data)


_CFG = {}


def _config(is_client):
    if is_client not in _CFG:
        _CFG[is_client] = QuicConfiguration(is_client=is_client, alpn_protocols=["h3"])
    return _CFG[is_client]


def sdr(stream_id, data, fin=False):
    return StreamDataReceived(data=bytes(data), end_stream=fin, stream_id=stream_id)


def setup(kind):
    """Fresh H3Connection brought to the point where the block under test arrives.
    -> (h3, quic, stream_id, prefix_bytes_on_that_stream)"""
    is_client = kind in ("response", "trailers_resp", "push_promise", "push_response")
    q = RecordingQuic(is_client)
    h3 = H3Connection(q)
    ctrl = 3 if is_client else 2
    ev = h3.handle_event(sdr(ctrl, R.control_stream()))
    assert ev == [] and q.closed is None
    if is_client:
        sid = q.get_next_available_stream_id()
        assert sid == 0
        h3.send_headers(0, REQ_BASE, end_stream=True)
    if kind == "trailers_req":
        ev = h3.handle_event(sdr(0, R.headers_frame(REQ_BASE) + R.data_frame(b"x")))
        assert len(ev) == 2 and q.closed is None, ev
    elif kind == "trailers_resp":
        ev = h3.handle_event(sdr(0, R.headers_frame(RESP_BASE) + R.data_frame(b"x")))
        assert len(ev) == 2 and q.closed is None, ev
    elif kind == "push_response":
        ev = h3.handle_event(sdr(0, R.push_promise_frame(0, REQ_BASE)))
        assert len(ev) == 1 and isinstance(ev[0], PushPromiseReceived) and q.closed is None
        ev = h3.handle_event(sdr(15, R.uni_stream(R.STREAM_PUSH, 0)))
        assert ev == [] and q.closed is None, ev
        return h3, q, 15
    return h3, q, 0


def block_frame(kind, block):
    if kind == "push_promise":
        return R.push_promise_frame(0, block)
    return R.headers_frame(block)


def summarize(events):
    out = []
    for e in events:
        if isinstance(e, HeadersReceived):
            out.append(("headers", [tuple(h) for h in e.headers], e.stream_id, e.push_id,
                        e.stream_ended))
        elif isinstance(e, PushPromiseReceived):
            out.append(("push_promise", [tuple(h) for h in e.headers], e.stream_id, e.push_id,
                        None))
        elif isinstance(e, DataReceived):
            out.append(("data", bytes(e.data), e.stream_id, e.push_id, e.stream_ended))
        else:
            out.append((type(e).__name__,))
    return out


# ----------------------------------------------------------- block cases (A,B,C)
def run_block(kind, block, fin, trace=None):
    """Deliver one header block; -> (outcome, violation | None)."""
    h3, q, sid = setup(kind)
    data = block_frame(kind, block)
    exc = None
    try:
        events = h3.handle_event(sdr(sid, data, fin))
    except Exception as e:  # noqa
        exc = e
        events = []
    obs = summarize(events)
    v = R.check_headers(block, VKIND[kind])
    if trace is not None:
        trace("kind=%s stream=%d fin=%r block=%r" % (kind, sid, fin, block))
        trace("  frame bytes: %s" % data.hex())
        trace("  validator: %r" % v)
        trace("  events: %r" % (obs,))
        trace("  closed: %r  exception: %r" % (q.closed, exc))
    if exc is not None:
        return ("exception", type(exc).__name__), (
            "exception",
            "handle_event raised %s: %s" % (type(exc).__name__, exc),
        )
    want_type = "push_promise" if kind == "push_promise" else "headers"
    hdr_events = [o for o in obs if o[0] in ("headers", "push_promise")]
    code = None if q.closed is None else q.closed[0]
    produced = None
    problem = None
    if hdr_events:
        o = hdr_events[0]
        push_id = 0 if kind in ("push_promise", "push_response") else None
        ended = None if kind == "push_promise" else fin
        if (
            len(hdr_events) != 1
            or o[0] != want_type
            or o[1] != [tuple(h) for h in block]
            or o[2] != sid
            or o[3] != push_id
            or o[4] != ended
        ):
            problem = ("headers_differ", "event %r does not carry exactly the block %r "
                       "(stream %d, push %r, ended %r)" % (o, block, sid, push_id, ended))
        produced = True
        if code is not None:
            problem = problem or ("event_and_close", "event produced AND connection closed "
                                  "with 0x%x" % code)
    if v.verdict == R.REJECT:
        if hdr_events:
            problem = ("accepted_broken_rule",
                       "block breaking %s was handed to the application: %r"
                       % (",".join(v.broken), block))
        elif code != MESSAGE_ERROR:
            problem = ("wrong_close",
                       "block breaking %s: connection %s instead of H3_MESSAGE_ERROR"
                       % (",".join(v.broken),
                          "left open without event" if code is None else "closed with 0x%x" % code))
    elif v.verdict == R.ACCEPT:
        if not hdr_events:
            problem = problem or (
                "rejected_valid",
                "block breaking no rule produced no event (closed=%r): %r" % (q.closed, block))
    else:
        if not hdr_events and code is None:
            problem = ("no_event_no_close", "neither event nor close for %r" % (block,))
    outcome = (v.verdict, "event" if produced else "closed:0x%x" % code if code is not None
               else "nothing")
    return outcome, problem


def strings(alphabet, lo, hi):
    for n in range(lo, hi + 1):
        for t in itertools.product(alphabet, repeat=n):
            yield bytes(t)


def sweep256():
    for b in range(256):
        c = bytes([b])
        yield c
        yield b"a" + c
        yield c + b"a"


def bases(kind):
    vk = VKIND[kind]
    if vk in (R.REQUEST, R.PUSH_PROMISE_KIND):
        return list(REQ_BASE)
    if vk == R.RESPONSE:
        return list(RESP_BASE)
    return []


def fin_for(kind):
    return kind in ("request", "trailers_req", "trailers_resp")


def gen_names(kind, L, extra_prefix):
    base = bases(kind)
    seen = set()

    def names():
        for s in strings(ALPHABET, 1, L):
            yield s
        for s in sweep256():
            yield s
        if extra_prefix is not None:
            for s in strings(ALPHABET, L, L):
                yield extra_prefix + s

    for nm in names():
        if nm in seen:
            continue
        seen.add(nm)
        yield base + [(b"a", b"1"), (nm, b"v"), (b"z", b"1")]
        yield base + [(b":" + nm, b"v"), (b"a", b"1")]


def gen_values(kind, L, extra_prefix):
    base = bases(kind)
    seen = set()

    def values():
        for s in strings(ALPHABET, 0, L):
            yield s
        for s in sweep256():
            yield s
        if extra_prefix is not None:
            for s in strings(ALPHABET, L, L):
                yield extra_prefix + s
                yield s + extra_prefix

    for val in values():
        if val in seen:
            continue
        seen.add(val)
        yield base + [(b"a", b"1"), (b"x-t", val), (b"z", b"1")]
        if base:
            # as the value of the last pseudo-header (:path / :status)
            yield base[:-1] + [(base[-1][0], val)] + [(b"a", b"1")]


def gen_pseudo(kind, maxlen):
    reg = (b"x-r", b"1")
    for n in range(0, maxlen + 1):
        for seq in itertools.product(range(len(PSEUDO)), repeat=n):
            hs = [PSEUDO[i] for i in seq]
            for pos in range(n + 1):
                yield hs[:pos] + [reg] + hs[pos:]
            if n:
                yield hs  # no regular header at all


def gen_misc(kind):
    base = bases(kind)
    yield base + [(b"", b"v")]
    yield base + [(b"", b"")]
    yield base  # for trailers: the empty block (EITHER)
    yield base + [(b"transfer-encoding", b"trailers")]
    yield base + [(b"transfer-encoding", b"chunked")]
    yield base + [(b"a:b", b"v")]
    # long-ish names/values around the 3-bit / 7-bit QPACK prefix limits
    for n in (6, 7, 8, 126, 127, 128, 300):
        yield base + [(b"n" * n, b"v" * n)]
        yield base + [(b"n" * (n - 1) + b"A", b"v")]
        yield base + [(b"n", b"v" * (n - 1) + b" ")]
    # every pseudo-header of a well-formed section given twice - adjacent, and as the last pseudo-header - with every
    # pairing of (empty, the genuine value, another value): "none repeated" does not depend on what the copies say
    for i, (nm, val) in enumerate(base):
        for v1 in (b"", val, b"x"):
            for v2 in (b"", val, b"x"):
                yield base[:i] + [(nm, v1), (nm, v2)] + base[i + 1:] + [(b"a", b"1")]
                if i + 1 < len(base):
                    yield base[:i] + [(nm, v1)] + base[i + 1:] + [(nm, v2), (b"a", b"1")]
    if VKIND[kind] in (R.REQUEST, R.PUSH_PROMISE_KIND):
        # scheme values x empty :authority / :path
        for sch in (b"http", b"https", b"ftp", b""):
            for au in (b"", b"h"):
                for pa in (b"", b"/"):
                    yield [(b":method", b"GET"), (b":scheme", sch), (b":authority", au),
                           (b":path", pa)]


BLOCK_PARTS = ("names", "values", "pseudo", "misc")


def gen_block_cases(part, kind, params):
    if part == "names":
        return gen_names(kind, params["L"], params["extra"])
    if part == "values":
        return gen_values(kind, params["L"], params["extra"])
    if part == "pseudo":
        return gen_pseudo(kind, params["P"])
    return gen_misc(kind)


# ------------------------------------------------------- content-length (part D)
CL_SPELLINGS = (
    # (label, [values of the content-length header(s)], nominal size used to build bodies)
    ("0", [b"0"], 0),
    ("5", [b"5"], 5),
    ("05", [b"05"], 5),
    ("00", [b"00"], 0),
    ("+5", [b"+5"], 5),
    ("5SP", [b"5 "], 5),
    ("5_0", [b"5_0"], 50),
    ("-1", [b"-1"], 1),
    ("1e1", [b"1e1"], 10),
    ("empty", [b""], 0),
    ("2^64", [b"18446744073709551616"], 5),
    ("2^63", [b"9223372036854775808"], 5),
    ("5,5", [b"5", b"5"], 5),
    ("5,6", [b"5", b"6"], 6),
    ("6,5", [b"6", b"5"], 5),
    ("absent", [], 3),
)
CL_KINDS = ("request", "response", "push_response")
CL_FRAMINGS = ("one", "two", "zero_first", "zero_mid", "zero_last", "trailers", "bytes3", "truncated", "truncated_second",
               "trailers_cl", "promise_cl0")
CL_DELIVERIES = ("whole", "frames_fin_last", "frames_lone_fin", "bytewise_lone_fin",
                 "bytewise_fin_last")


def cl_body_sizes(nominal):
    s = {0, nominal, nominal + 1}
    if nominal > 0:
        s.add(nominal - 1)
    if nominal == 50:
        s |= {5}
    return sorted(s)


def cl_frames(body, framing, announce=None, kind=None):
    """-> list of frame byte strings following the HEADERS frame, or None if n/a."""
    n = len(body)
    # another header block on the same stream carries a content-length of its own (the trailers claim the size that was
    # really delivered; a promised request declares an empty body): it says nothing about THIS message
    if framing == "trailers_cl":
        return ([R.data_frame(body)] if n else []) + [R.headers_frame([(b"x-trailer", b"1"), (b"content-length", b"%d" % n)])]
    if framing == "promise_cl0":
        if kind != "response":
            return None
        return [R.push_promise_frame(0, list(REQ_BASE) + [(b"content-length", b"0")])] + ([R.data_frame(body)] if n else [])
    if framing == "one":
        return [R.data_frame(body)] if n else []
    if framing == "two":
        if n < 2:
            return None
        return [R.data_frame(body[:1]), R.data_frame(body[1:])]
    if framing == "zero_first":
        return [R.data_frame(b"")] + ([R.data_frame(body)] if n else [])
    if framing == "zero_mid":
        if n < 2:
            return None
        return [R.data_frame(body[: n // 2]), R.data_frame(b""), R.data_frame(body[n // 2 :])]
    if framing == "zero_last":
        if not n:
            return None
        return [R.data_frame(body), R.data_frame(b"")]
    if framing == "trailers":
        return ([R.data_frame(body)] if n else []) + [R.headers_frame([(b"x-trailer", b"1")])]
    if framing == "bytes3":
        if n < 3:
            return None
        return [R.data_frame(body[i : i + 1]) for i in range(n)]
    if framing in ("truncated", "truncated_second"):
        # the last DATA frame ANNOUNCES more payload than arrives before the FIN (announced lengths add up to
        # `announce`, the delivered body is shorter): what counts is what was delivered
        if announce is None or announce <= n or (framing == "truncated_second" and n < 2):
            return None
        if framing == "truncated":
            return [R.frame(R.DATA, body, length=announce)]
        return [R.data_frame(body[:1]), R.frame(R.DATA, body[1:], length=announce - 1)]
    raise ValueError(framing)


def gen_cl_cases(kind):
    for label, vals, nominal in CL_SPELLINGS:
        for size in cl_body_sizes(nominal):
            for framing in CL_FRAMINGS:
                body = bytes((0x41 + i % 26) for i in range(size))
                if cl_frames(body, framing, nominal, kind) is None:
                    continue
                for delivery in CL_DELIVERIES:
                    for pos in ("last", "first"):
                        if pos == "first" and not vals:
                            continue
                        yield {"spelling": label, "size": size, "framing": framing,
                               "delivery": delivery, "clpos": pos}
                # the header section (or the trailer section) refers to a QPACK dynamic-table entry whose
                # insertion arrives on the encoder stream only AFTER the whole message, FIN included: the
                # stream is blocked and the checks run when it is resumed
                if label in ("0", "5", "00", "5,6", "absent", "2^64"):
                    for blocked in ("headers", "trailers"):
                        if blocked == "trailers" and framing != "trailers":
                            continue
                        for delivery in ("whole", "frames_fin_last", "frames_lone_fin"):
                            yield {"spelling": label, "size": size, "framing": framing, "delivery": delivery,
                                   "clpos": "last", "blocked": blocked}


def cl_block(kind, case):
    vals = [s for s in CL_SPELLINGS if s[0] == case["spelling"]][0][1]
    base = bases(kind)
    cls = [(b"content-length", v) for v in vals]
    if case["clpos"] == "first":
        return base + cls + [(b"a", b"1")]
    return base + [(b"a", b"1")] + cls


DYN_ENTRY = (b"x-dyn", b"1")


def blocked_section(headers):
    """Field section = literal lines for `headers` + one reference to dynamic-table entry 0, Required
    Insert Count 1 (decodes to headers + [DYN_ENTRY] once the encoder stream has delivered the insert)."""
    max_entries = 4096 // 32
    enc_ric = (1 % (2 * max_entries)) + 1
    return (R.section_prefix(enc_ric, 0, 0) + b"".join(R.literal_line(bytes(n), bytes(v)) for n, v in headers)
            + R.dynamic_indexed_line(0))


def run_cl(kind, case, trace=None):
    h3, q, sid = setup(kind)
    block = cl_block(kind, case)
    body = bytes((0x41 + i % 26) for i in range(case["size"]))
    blocked = case.get("blocked")
    nominal = [sp for sp in CL_SPELLINGS if sp[0] == case["spelling"]][0][2]
    frames = [R.headers_frame(block)] + cl_frames(body, case["framing"], nominal, kind)
    if blocked == "headers":
        frames[0] = R.frame(R.HEADERS, blocked_section(block))
        block = block + [DYN_ENTRY]
    elif blocked == "trailers":
        frames[-1] = R.frame(R.HEADERS, blocked_section([(b"x-trailer", b"1")]))
    d = case["delivery"]
    if d == "whole":
        chunks = [(b"".join(frames), True)]
    elif d == "frames_fin_last":
        chunks = [(f, i == len(frames) - 1) for i, f in enumerate(frames)]
    elif d == "frames_lone_fin":
        chunks = [(f, False) for f in frames] + [(b"", True)]
    else:
        allb = b"".join(frames)
        chunks = [(allb[i : i + 1], False) for i in range(len(allb))]
        if d == "bytewise_lone_fin":
            chunks.append((b"", True))
        else:
            chunks[-1] = (chunks[-1][0], True)
    obs = []
    exc = None
    for data, fin in chunks:
        try:
            obs += summarize(h3.handle_event(sdr(sid, data, fin)))
        except Exception as e:  # noqa
            exc = e
            break
    if blocked and exc is None:
        if q.closed is None and not getattr(h3._stream.get(sid), "blocked", False):
            raise core.HarnessError("the %s section did not block stream %d" % (blocked, sid))
        enc_sid = 7 if sid in (0, 15) and kind in ("response", "push_response") else 6
        try:
            obs += summarize(h3.handle_event(sdr(enc_sid, R.uni_stream(
                R.STREAM_QPACK_ENCODER, None, R.enc_set_capacity(4096) + R.enc_insert_literal(*DYN_ENTRY)))))
        except Exception as e:  # noqa
            exc = e
    v = R.check_headers(block, VKIND[kind])
    if trace is not None:
        trace("kind=%s case=%r" % (kind, case))
        trace("  block=%r body=%r" % (block, body))
        for data, fin in chunks[:12]:
            trace("  deliver stream %d fin=%r %s" % (sid, fin, data.hex()))
        if len(chunks) > 12:
            trace("  ... %d deliveries in total" % len(chunks))
        trace("  validator: %r" % v)
        trace("  events: %r" % (obs,))
        trace("  closed: %r  exception: %r" % (q.closed, exc))
    if exc is not None:
        return ("exception", type(exc).__name__), (
            "exception", "handle_event raised %s: %s" % (type(exc).__name__, exc))
    code = None if q.closed is None else q.closed[0]
    hdrs = [o for o in obs if o[0] == "headers"]
    datas = [o for o in obs if o[0] == "data"]
    delivered = b"".join(o[1] for o in datas)
    ended = [o for o in obs if o[-1] is True]
    has_trailers = case["framing"] in ("trailers", "trailers_cl")
    problem = None
    # generic consistency
    if hdrs and hdrs[0][1] != [tuple(h) for h in block]:
        problem = ("headers_differ", "HeadersReceived %r differs from block %r" % (hdrs[0], block))
    elif not body.startswith(delivered):
        problem = ("body_differs", "DataReceived bytes %r are not a prefix of the body %r"
                   % (delivered, body))
    elif ended and code is not None:
        problem = ("event_and_close", "end-of-stream event AND close 0x%x" % code)
    if v.verdict == R.REJECT:
        if hdrs:
            problem = ("accepted_broken_rule", "block breaking %s reached the application"
                       % ",".join(v.broken))
        elif code != MESSAGE_ERROR:
            problem = ("wrong_close", "block breaking %s: close=%r" % (",".join(v.broken), q.closed))
        expect = "reject-headers"
    elif v.content_length == "unjudged" or v.verdict == R.EITHER:
        expect = "either"
        if code is None and (not ended or delivered != body):
            problem = problem or ("incomplete", "open connection but stream end / body not "
                                  "reported: delivered %r ended %r" % (delivered, ended))
    elif v.content_length is None or v.content_length == len(body):
        expect = "accept"
        if code is not None:
            problem = ("rejected_valid", "content-length %r with %d body bytes: closed %r"
                       % (v.content_length, len(body), q.closed))
        elif not hdrs or delivered != body or len(ended) != 1:
            problem = problem or (
                "incomplete", "valid message not fully reported: headers=%d delivered=%r "
                "ended=%r" % (len(hdrs), delivered, ended))
        elif has_trailers and len(hdrs) != 2:
            problem = ("incomplete", "trailers not reported")
    else:
        expect = "reject-length"
        if ended:
            problem = ("content_length_mismatch_accepted",
                       "declared content-length %d, %d body bytes delivered, but end of stream "
                       "was reported to the application: %r"
                       % (v.content_length, len(body), ended))
        elif code != MESSAGE_ERROR:
            problem = ("wrong_close",
                       "declared content-length %d, %d body bytes: connection %s instead of "
                       "H3_MESSAGE_ERROR" % (v.content_length, len(body),
                                             "left open" if code is None else "closed 0x%x" % code))
    outcome = (expect, "closed:0x%x" % code if code is not None else
               "ended" if ended else "open", len(hdrs), len(delivered) == len(body))
    return outcome, problem


# ------------------------------------------------------------------- sharding
def hexblock(block):
    return [[n.hex(), v.hex()] for n, v in block]


def unhexblock(hb):
    return [(bytes.fromhex(n), bytes.fromhex(v)) for n, v in hb]


def work(item):
    part, kind, params, shard, nshards = item
    n = 0
    outcomes = {}
    viols = []
    samples = []
    verdicts = {}
    if part == "content_length":
        for i, case in enumerate(gen_cl_cases(kind)):
            if i % nshards != shard:
                continue
            n += 1
            outcome, problem = run_cl(kind, case)
            key = (part, kind) + outcome
            outcomes[key] = outcomes.get(key, 0) + 1
            verdicts[outcome[0]] = verdicts.get(outcome[0], 0) + 1
            if problem:
                sig = {"monitor": "c15." + problem[0], "kind": kind, "expect": outcome[0],
                       "spelling": case["spelling"]}
                viols.append((case["size"] + len(case["framing"]), sig, problem[1],
                              {"part": part, "kind": kind, "case": case}))
            elif len(samples) < 1 and outcome[0] == "reject-length":
                samples.append({"part": part, "kind": kind, "case": case, "outcome": outcome})
        return n, outcomes, viols, samples, verdicts
    for i, block in enumerate(gen_block_cases(part, kind, params)):
        if i % nshards != shard:
            continue
        n += 1
        fin = fin_for(kind)
        outcome, problem = run_block(kind, block, fin)
        v = R.check_headers(block, VKIND[kind])
        key = (part, kind) + outcome + (v.broken,)
        outcomes[key] = outcomes.get(key, 0) + 1
        verdicts[v.verdict] = verdicts.get(v.verdict, 0) + 1
        if problem:
            sig = {"monitor": "c15." + problem[0], "kind": kind, "rules": ",".join(v.broken)}
            size = sum(len(a) + len(b) for a, b in block) + 100 * len(block)
            viols.append((size, sig, problem[1],
                          {"part": part, "kind": kind, "block": hexblock(block), "fin": fin}))
        elif len(samples) < 1 and v.verdict == R.REJECT and i > 50:
            samples.append({"part": part, "kind": kind, "block": hexblock(block),
                            "outcome": outcome, "broken": v.broken})
    return n, outcomes, viols, samples, verdicts


# ----------------------------------------------------------------------- main
def run(ctx):
    quick = ctx.tier == "quick"
    L = 3 if quick else 4
    P = 4 if quick else 5
    # VERIF_SEED only selects which slice of the thorough space quick adds: the strings of
    # length L+1 that start (names, values) or end (values) with one alphabet byte.
    extra = ALPHABET[ctx.seed % len(ALPHABET) : ctx.seed % len(ALPHABET) + 1] if quick else None
    params = {"L": L, "P": P, "extra": extra}
    items = []
    for part in BLOCK_PARTS + ("content_length",):
        if ctx.only_parts and part not in ctx.only_parts:
            continue
        kinds = CL_KINDS if part == "content_length" else KINDS
        for kind in kinds:
            n = {"misc": 1, "content_length": 4}.get(part, 8 if quick else 32)
            for s in range(n):
                items.append((part, kind, params, s, n))
    results = core.pmap(work, items)
    per_part = {}
    all_outcomes = {}
    viols = []
    for item, (n, outcomes, vs, samples, verdicts) in zip(items, results):
        pp = per_part.setdefault(item[0], {"n": 0, "verdicts": {}, "outcomes": set()})
        pp["n"] += n
        for k, c in verdicts.items():
            pp["verdicts"][k] = pp["verdicts"].get(k, 0) + c
        pp["outcomes"] |= set(outcomes)
        for k, c in outcomes.items():
            all_outcomes[k] = all_outcomes.get(k, 0) + c
        viols += vs
        for s in samples:
            ctx.sample(s)
    for part, pp in per_part.items():
        ctx.part(part, evaluations=pp["n"], distinct_nontrivial=len(pp["outcomes"]),
                 states=pp["n"], transitions=pp["n"], verdicts=dict(sorted(pp["verdicts"].items())))
        if len(pp["outcomes"]) < 3:
            raise core.HarnessError("%s: vacuous enumeration (%d outcomes)"
                                    % (part, len(pp["outcomes"])))
        if part != "misc":
            need = {"reject", "accept"} if part != "content_length" else {"reject-length", "accept"}
            if not need <= set(pp["verdicts"]):
                raise core.HarnessError("%s: verdict classes %r missing"
                                        % (part, need - set(pp["verdicts"])))
    # simplest counterexample per signature first
    viols.sort(key=lambda t: (t[0], core.jdump(t[1], sort_keys=True)))
    seen = set()
    for size, sig, what, rp in viols:
        k = core.stable_hash(sig)
        if k in seen:
            continue
        seen.add(k)
        ctx.violation(sig, what, rp)
    ctx.cov["rule"] = (
        "exhaustive enumeration: every name/value over the 13-byte boundary alphabet up to "
        "length L (+ all 256 single bytes alone/prefixed/suffixed) as regular header, as "
        "':'-name and as :path/:status value; every pseudo-header sequence up to length P over 7 "
        "symbols with a regular header at every position; content-length spellings x body sizes "
        "x framings x deliveries; for requests, responses, request/response trailers, push "
        "promises and pushed responses; each on a fresh real H3Connection, judged by the "
        "independent validator refh3.check_headers"
    )
    ctx.cov["bounds"] = {"L": L, "P": P, "quick_extra_byte": extra, "kinds": KINDS,
                         "content_length_spellings": [s[0] for s in CL_SPELLINGS]}
    ctx.cov["outcome_histogram"] = {
        "/".join(str(x) for x in k): c for k, c in sorted(all_outcomes.items(), key=repr)
        if k[0] in ("content_length", "misc")
    }
    ctx.cov["exhaustive"] = not ctx.caps_hit
    ctx.assumptions += [
        "the transport is a recording stand-in exposing the QuicConnection methods H3Connection "
        "uses (close, send_stream_data, get_next_available_stream_id); no qlog logger",
        "verdict EITHER (property silent: non-initial colon, :protocol, missing "
        ":scheme/:path/:authority, empty name, transfer-encoding, content-length not 1*DIGIT or "
        "conflicting duplicates) accepts both outcomes",
        "a request pseudo-header in a response (and vice versa) counts as 'unknown' (RFC 9114 §4.3)",
        "push promises are judged as requests (must carry :method)",
    ]


def replay(ctx, obj):
    rp = obj["replay"]
    kind = rp["kind"]
    if rp["part"] == "content_length":
        outcome, problem = run_cl(kind, rp["case"], trace=print)
    else:
        outcome, problem = run_block(kind, unhexblock(rp["block"]), rp["fin"], trace=print)
    print("outcome:", outcome)
    if problem:
        print("VIOLATION property=C15 (replayed) %s: %s" % problem)
        return 1
    print("no violation on replay")
    return 0
