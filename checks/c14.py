"""C14 - HTTP/3 events are independent of chunking / interleaving and survive a
round trip.

World: one REAL sending H3Connection and one REAL receiving H3Connection, each
on a recording fake QUIC object (vlib/h3drive.py).  A *shape* is a small Python
function that drives the sending API (send_headers / send_data /
send_push_promise / create_webtransport_stream / send_datagram, plus raw writes
for bytes a real sender never emits: GREASE frames, truncated frames).  The
bytes the sender passes to send_stream_data, concatenated per stream, are the
input of the receiver.

Engines
  split  E2: BFS with state merging over *all* splittings of one stream
         (node = bytes consumed, FIN delivered, canonical receiver state,
         normal form so far; moves = deliver the next c bytes for every c >= 1,
         FIN attached to the last chunk or delivered alone), the other streams
         delivered whole before/after according to a variant (ctx_first,
         enc_after, all_after).  The receiver holds pylsqpack coders, so a node
         is rebuilt by replaying its (shortest) history on fresh objects.
  pair   the same BFS over two streams at once (all splittings x all
         interleavings of the QPACK encoder stream and a request stream ...).
  inter  E3: 2-3 streams (or the datagram sequence) cut into <= 3 chunks each,
         every merge that preserves per-stream order.

Oracle (no stronger than the property): the normal form (headers in order with
their position relative to the body, body bytes concatenated, trailers, push
promises, WebTransport bytes concatenated, end-of-stream per stream, datagrams;
connection open / closed with code) reached by every splitting and interleaving
equals the one of the one-delivery-per-stream run; for valid shapes it equals
what was submitted on the sending side.
"""
import hashlib
import itertools
import time

from vlib import core, explore

LEVEL = "model_checking"

from vlib import h3drive  # noqa: E402
from vlib.h3drive import Receiver, Sender, frame, frame_header, varint  # noqa: E402

# =================================================================== shapes
GET = (
    (b":method", b"GET"),
    (b":scheme", b"https"),
    (b":authority", b"localhost"),
    (b":path", b"/"),
    (b"x-foo", b"client"),
)
POST = ((b":method", b"POST"),) + GET[1:]
RESP = ((b":status", b"200"), (b"x-foo", b"server"))
EARLY = ((b":status", b"103"), (b"link", b"</app.css>; rel=preload"))
TRAILERS = ((b"x-some-trailer", b"foo"),)
PUSHREQ = (
    (b":method", b"GET"),
    (b":scheme", b"https"),
    (b":authority", b"localhost"),
    (b":path", b"/app.css"),
    (b"x-foo", b"pushed"),
)
CONNECT = (
    (b":method", b"CONNECT"),
    (b":scheme", b"https"),
    (b":authority", b"localhost"),
    (b":path", b"/"),
    (b":protocol", b"webtransport"),
)
GREASE1 = frame(0x21, b"GR")  # 1-byte type
GREASE2 = frame(0x21 + 0x1F * 2, b"")  # 2-byte varint type, empty payload
GREASE8 = frame(0x21 + 0x1F * 0x0108421084210840, b"grease!")  # 8-byte varint type
BIG = bytes(range(0x30, 0x30 + 70))  # DATA frame length needs a 2-byte varint


def _open(S, post=True):
    """Start a message: a request on a new stream (client sender) or the
    response to a request the receiving client has made (server sender)."""
    if S.is_client:
        return S.new_stream(), (POST if post else GET)
    return S.peer_request(GET, True), RESP


def _cl(h, n):
    return tuple(h) + ((b"content-length", b"%d" % n),)


# each shape: fn(S).  Shapes are written once and run for both roles unless a
# role tuple says otherwise.
def sh_headers_only(S):
    sid, h = _open(S, post=False)
    S.headers(sid, h, fin=True)


def sh_body(S):
    sid, h = _open(S)
    S.headers(sid, h)
    S.data(sid, b"hello", fin=True)


def sh_body_two_frames(S):
    sid, h = _open(S)
    S.headers(sid, h)
    S.data(sid, b"hel")
    S.data(sid, b"lo", fin=True)


def sh_body_big(S):
    sid, h = _open(S)
    S.headers(sid, h)
    S.data(sid, BIG, fin=True)


def sh_zero_data_last(S):
    sid, h = _open(S)
    S.headers(sid, h)
    S.data(sid, b"", fin=True)


def sh_zero_data_mid(S):
    sid, h = _open(S)
    S.headers(sid, h)
    S.data(sid, b"")
    S.data(sid, b"hi", fin=True)


def sh_trailers(S):
    sid, h = _open(S)
    S.headers(sid, h)
    S.data(sid, b"hello")
    S.headers(sid, TRAILERS, fin=True)


def sh_trailers_no_body(S):
    sid, h = _open(S)
    S.headers(sid, h)
    S.headers(sid, TRAILERS, fin=True)


def sh_content_length(S):
    sid, h = _open(S)
    S.headers(sid, _cl(h, 5))
    S.data(sid, b"hello", fin=True)


def sh_content_length_two_frames(S):
    sid, h = _open(S)
    S.headers(sid, _cl(h, 5))
    S.data(sid, b"he")
    S.data(sid, b"llo")
    S.headers(sid, TRAILERS, fin=True)


def sh_content_length_zero(S):
    sid, h = _open(S)
    S.headers(sid, _cl(h, 0), fin=True)


def sh_fin_alone(S):
    sid, h = _open(S)
    S.headers(sid, h)
    S.data(sid, b"hello")
    S.raw(sid, b"", fin=True, ends=True)


def sh_two_messages(S):
    a, h = _open(S)
    b, _ = _open(S)
    S.headers(a, h)
    S.headers(b, h)
    S.data(b, b"second", fin=True)
    S.data(a, b"first", fin=True)


def sh_informational(S):
    sid, _ = _open(S)
    S.headers(sid, EARLY)
    S.headers(sid, RESP, fin=True)


def sh_push(S):
    S.prime()
    sid, h = _open(S)
    psid = S.push(sid, PUSHREQ)
    S.headers(sid, h)
    S.data(sid, b"hello", fin=True)
    S.headers(psid, RESP)
    S.data(psid, b"pushed", fin=True)


def sh_push_body_trailers(S):
    # the pushed response has everything a request stream can have: two DATA frames and trailers
    # (push streams enter the frame parser by a different route: bytes are buffered by the
    # unidirectional-stream handler first)
    S.prime()
    sid, h = _open(S)
    psid = S.push(sid, PUSHREQ)
    S.headers(sid, h, fin=True)
    S.headers(psid, RESP)
    S.data(psid, b"push")
    S.data(psid, b"ed!")
    S.headers(psid, TRAILERS, fin=True)


def sh_push_content_length(S):
    # the pushed response declares its length: the receiver's byte count must not depend on how the
    # DATA frames were cut
    S.prime()
    sid, h = _open(S)
    psid = S.push(sid, PUSHREQ)
    S.headers(sid, h, fin=True)
    S.headers(psid, _cl(RESP, 9))
    S.data(psid, b"pushed")
    S.data(psid, b"abc", fin=True)


def sh_push_after_body(S):
    S.prime()
    sid, h = _open(S)
    S.headers(sid, h)
    S.data(sid, b"he")
    psid = S.push(sid, PUSHREQ)
    S.data(sid, b"llo", fin=True)
    S.headers(psid, RESP, fin=True)


def sh_push_promise_last(S):
    S.prime()
    sid, h = _open(S)
    S.headers(sid, h)
    S.data(sid, b"hello")
    psid = S.push(sid, PUSHREQ)
    S.raw(sid, b"", fin=True, ends=True)
    S.headers(psid, RESP, fin=True)


def sh_dyn(S):
    """Second and third message reference the QPACK dynamic table (inserted on
    the encoder stream by the second)."""
    S.prime()
    a, h = _open(S, post=False)
    b, _ = _open(S, post=False)
    c, _ = _open(S, post=False)
    S.headers(a, h, fin=True)
    S.headers(b, h, fin=True)
    S.headers(c, h, fin=True)


def sh_dyn_many(S):
    """As many concurrent messages as the receiver allows to wait for the encoder stream
    (SETTINGS_QPACK_BLOCKED_STREAMS = 16) and one more: all of them written before anything is acknowledged,
    so each may reference the insert the first one caused."""
    S.prime()
    opened = [_open(S, post=False) for _ in range(17)]
    for sid, h in opened:
        S.headers(sid, opened[0][1], fin=True)


def sh_dyn_body_trailers(S):
    S.prime()
    a, h = _open(S)
    b, _ = _open(S)
    for sid in (a, b):
        S.headers(sid, h)
        S.data(sid, b"hello")
        S.headers(sid, TRAILERS, fin=True)


def sh_dyn_trailers_min(S):
    """Second message: header block AND trailers each depend on their own fresh
    dynamic-table insert (two insert instructions on the encoder stream); no body,
    so that the joint encoder x message BFS stays small."""
    S.prime()
    a, h = _open(S, post=False)
    b, _ = _open(S, post=False)
    for sid in (a, b):
        S.headers(sid, h)
        S.headers(sid, TRAILERS, fin=True)


def sh_dyn_acked(S):
    """As dyn, but the peer's decoder acknowledgements reach the sender before
    the third message."""
    S.prime()
    a, h = _open(S, post=False)
    b, _ = _open(S, post=False)
    c, _ = _open(S, post=False)
    S.headers(a, h, fin=True)
    S.headers(b, h)
    S.sync()
    S.data(b, b"hello", fin=True)
    S.headers(c, h)
    S.data(c, b"", fin=True)


def sh_dyn_push(S):
    S.prime()
    sid, h = _open(S)
    p1 = S.push(sid, PUSHREQ)
    p2 = S.push(sid, PUSHREQ)
    S.headers(sid, h)
    S.data(sid, b"hello", fin=True)
    S.headers(p1, RESP, fin=True)
    S.headers(p2, RESP, fin=True)


def sh_dyn_push_min(S):
    """Smallest exchange with a PUSH_PROMISE that references the dynamic table."""
    S.prime()
    sid = S.peer_request(GET[:4], True)
    small = PUSHREQ[:3] + ((b":path", b"/"),)
    p1 = S.push(sid, small)
    p2 = S.push(sid, small)
    S.headers(sid, ((b":status", b"200"),), fin=True)
    S.headers(p1, ((b":status", b"200"),), fin=True)
    S.headers(p2, ((b":status", b"200"),), fin=True)


def sh_grease_between(S):
    sid, h = _open(S)
    S.headers(sid, h)
    S.raw(sid, GREASE1)
    S.data(sid, b"hel")
    S.raw(sid, GREASE2)
    S.data(sid, b"lo", fin=True)


def sh_grease_first(S):
    sid, h = _open(S)
    S.raw(sid, GREASE1)
    S.headers(sid, h)
    S.data(sid, b"hello", fin=True)


def sh_grease_wide(S):
    sid, h = _open(S)
    S.headers(sid, h)
    S.raw(sid, GREASE8)
    S.data(sid, b"hello", fin=True)


def sh_grease_last(S):
    sid, h = _open(S)
    S.headers(sid, h)
    S.data(sid, b"hello")
    S.raw(sid, GREASE1, fin=True, ends=True)


def sh_uni_unknown(S):
    S.raw_uni(varint(0x21 + 0x1F * 3) + b"GREASE is the word", fin=True)
    sid, h = _open(S)
    S.headers(sid, h, fin=True)


def sh_uni_unknown_wide(S):
    S.raw_uni(b"\xff\xff\xff\xff\xff\xff\xff\xfe" + b"GREASE", fin=False)
    sid, h = _open(S)
    S.headers(sid, h, fin=True)


def _session(S):
    if S.is_client:
        sid = S.new_stream()
        S.headers(sid, CONNECT)
        return sid
    sid = S.peer_request(CONNECT, False)
    S.headers(sid, ((b":status", b"200"),))
    return sid


def sh_wt_bidi(S):
    session = _session(S)
    w = S.wt_stream(session)
    S.wt_data(w, session, b"foo")
    S.wt_data(w, session, b"bar!", fin=True)


def sh_wt_uni(S):
    session = _session(S)
    w = S.wt_stream(session, uni=True)
    S.wt_data(w, session, b"foo")
    S.wt_data(w, session, b"bar!", fin=True)


def sh_wt_empty(S):
    session = _session(S)
    w = S.wt_stream(session)
    S.wt_data(w, session, b"", fin=True)
    u = S.wt_stream(session, uni=True)
    S.wt_data(u, session, b"", fin=True)


def sh_wt_wide_session(S):
    # session ids are not checked by the receiver: a 2-byte varint session id
    w = S.wt_stream(0x404)
    S.wt_data(w, 0x404, b"x", fin=True)
    u = S.wt_stream(0x404, uni=True)
    S.wt_data(u, 0x404, b"y", fin=True)


def sh_datagram(S):
    session = _session(S)
    S.datagram(0, b"dg-one")
    w = S.wt_stream(session)
    S.wt_data(w, session, b"foo", fin=True)
    S.datagram(0, b"")
    S.datagram(0, b"dg-three")


# ---- invalid byte strings (no round-trip expectation) ---------------------
def sh_trunc_data(S):
    S.invalid()
    sid, h = _open(S)
    S.headers(sid, h)
    S.raw(sid, frame_header(0x0, 10) + b"abcd", fin=True)


def sh_trunc_data_empty(S):
    S.invalid()
    sid, h = _open(S)
    S.headers(sid, h)
    S.raw(sid, frame_header(0x0, 5), fin=True)


def sh_trunc_data_second(S):
    S.invalid()
    sid, h = _open(S)
    S.headers(sid, _cl(h, 5))
    S.data(sid, b"hel")
    S.raw(sid, frame_header(0x0, 70) + b"lo", fin=True)


def sh_trunc_headers(S):
    sid, h = _open(S)
    S.headers(sid, h)
    S.chop(sid, 2)


def sh_trunc_trailers(S):
    sid, h = _open(S)
    S.headers(sid, h)
    S.data(sid, b"hello")
    S.headers(sid, TRAILERS)
    S.chop(sid, 1)


def sh_trunc_unknown(S):
    S.invalid()
    sid, h = _open(S)
    S.headers(sid, h)
    S.data(sid, b"hello")
    S.raw(sid, frame_header(0x21, 5) + b"ab", fin=True)


def sh_cut_type(S):
    S.invalid()
    sid, h = _open(S)
    S.headers(sid, h)
    S.data(sid, b"hello")
    S.raw(sid, b"\x00", fin=True)  # DATA type, no length


def sh_cut_type_wide(S):
    S.invalid()
    sid, h = _open(S)
    S.headers(sid, h)
    S.data(sid, b"hello")
    S.raw(sid, b"\x40", fin=True)  # first byte of a 2-byte type


def sh_cut_length_wide(S):
    S.invalid()
    sid, h = _open(S)
    S.headers(sid, h)
    S.raw(sid, b"\x00\x40", fin=True)  # DATA, first byte of a 2-byte length


def sh_cut_push_stream(S):
    S.invalid()
    S.raw_uni(b"\x01", fin=True)  # push stream, no push id
    S.raw_uni(b"\x01\x40", fin=True)  # half a push id
    S.raw_uni(b"\x40", fin=True)  # half a stream type
    sid, h = _open(S)
    S.headers(sid, h, fin=True)


def sh_cut_wt(S):
    S.invalid()
    a = S.new_stream()
    S.raw(a, b"\x40", fin=True)
    b = S.new_stream()
    S.raw(b, b"\x40\x41", fin=True)
    c = S.new_stream()
    S.raw(c, b"\x40\x41\x40", fin=True)
    S.raw_uni(b"\x40\x54\x40", fin=True)


class Shape:
    def __init__(self, fn, cls, roles=("client", "server"), quick=True, wt=False, pair=False,
                 pair_quick=False, name=None, rt_only=False):
        self.fn = fn
        self.name = name or fn.__name__[3:]
        self.rt_only = rt_only  # round trip only (size sweeps): no splitting / interleaving enumeration
        self.cls = cls  # normalised input class (goes into signatures)
        self.roles = roles  # role of the SENDER
        self.quick = quick
        self.wt = wt
        self.pair = pair  # also run the two-stream BFS (encoder stream x message)
        self.pair_quick = pair_quick  # ... in the quick tier too


BOTH = ("client", "server")
SHAPES = [
    Shape(sh_headers_only, "headers_with_fin"),
    Shape(sh_body, "headers_data"),
    Shape(sh_body_two_frames, "two_data_frames"),
    Shape(sh_body_big, "data_frame_wide_length", quick=False),
    Shape(sh_zero_data_last, "zero_length_data"),
    Shape(sh_zero_data_mid, "zero_length_data", quick=False),
    Shape(sh_trailers, "trailers"),
    Shape(sh_trailers_no_body, "trailers", quick=False),
    Shape(sh_content_length, "content_length"),
    Shape(sh_content_length_two_frames, "content_length", quick=False),
    Shape(sh_content_length_zero, "content_length", quick=False),
    Shape(sh_fin_alone, "fin_written_alone", quick=False),
    Shape(sh_two_messages, "two_messages", quick=False),
    Shape(sh_informational, "interim_then_final_response", roles=("server",)),
    Shape(sh_push, "push_promise_and_push_stream", roles=("server",)),
    Shape(sh_push_body_trailers, "push_stream_body_and_trailers", roles=("server",)),
    Shape(sh_push_content_length, "push_stream_content_length", roles=("server",)),
    Shape(sh_push_after_body, "push_promise_and_push_stream", roles=("server",), quick=False),
    Shape(sh_push_promise_last, "push_promise_last_frame", roles=("server",), quick=False),
    Shape(sh_dyn, "dynamic_table", pair=True),
    Shape(sh_dyn_many, "dynamic_table_many_blocked", roles=("client",)),
    Shape(sh_dyn_body_trailers, "dynamic_table", quick=False, pair=True),
    Shape(sh_dyn_trailers_min, "dynamic_table", pair=True, pair_quick=True),
    Shape(sh_dyn_acked, "dynamic_table", quick=False, pair=True),
    Shape(sh_dyn_push, "push_promise_dynamic_table", roles=("server",)),
    Shape(sh_dyn_push_min, "push_promise_dynamic_table", roles=("server",), quick=False, pair=True),
    Shape(sh_grease_between, "unknown_frames_between"),
    Shape(sh_grease_first, "unknown_frames_between", quick=False),
    Shape(sh_grease_wide, "unknown_frames_between", quick=False),
    Shape(sh_grease_last, "unknown_frame_last"),
    Shape(sh_uni_unknown, "unknown_uni_stream"),
    Shape(sh_uni_unknown_wide, "unknown_uni_stream", quick=False),
    Shape(sh_wt_bidi, "webtransport_bidi", wt=True),
    Shape(sh_wt_uni, "webtransport_uni", wt=True),
    Shape(sh_wt_empty, "webtransport_empty", wt=True, quick=False),
    Shape(sh_wt_wide_session, "webtransport_wide_session", wt=True, quick=False),
    Shape(sh_datagram, "datagram", wt=True),
    # invalid byte strings
    Shape(sh_trunc_data, "data_frame_truncated_by_fin"),
    Shape(sh_trunc_data_empty, "data_frame_truncated_by_fin", quick=False),
    Shape(sh_trunc_data_second, "data_frame_truncated_by_fin", quick=False),
    Shape(sh_trunc_headers, "headers_frame_truncated_by_fin", quick=False),
    Shape(sh_trunc_trailers, "headers_frame_truncated_by_fin", quick=False),
    Shape(sh_trunc_unknown, "unknown_frame_truncated_by_fin", quick=False),
    Shape(sh_cut_type, "frame_header_cut_by_fin", quick=False),
    Shape(sh_cut_type_wide, "frame_header_cut_by_fin", quick=False),
    Shape(sh_cut_length_wide, "frame_header_cut_by_fin", quick=False),
    Shape(sh_cut_push_stream, "uni_stream_header_cut_by_fin", roles=("server",), quick=False),
    Shape(sh_cut_wt, "webtransport_header_cut_by_fin", roles=("client",), wt=True, quick=False),
]


# ---- size sweeps: "for every body size and header list".  Frame lengths are variable-length integers:
# the interesting sizes are around 63/64 and 16383/16384 bytes of frame payload.
def _mk_body(n):
    def fn(S):
        sid, h = _open(S)
        S.headers(sid, h)
        S.data(sid, bytes((i * 7 + n) & 0xFF for i in range(n)), fin=True)
    return fn


def _mk_header_value(n):
    def fn(S):
        sid, h = _open(S)
        S.headers(sid, tuple(h) + ((b"x-pad", b"v" * n),))
        S.data(sid, b"ok", fin=True)
    return fn


def _mk_trailer_value(n):
    def fn(S):
        sid, h = _open(S)
        S.headers(sid, h)
        S.data(sid, b"ok")
        S.headers(sid, ((b"x-trailer", bytes(0x61 + (i % 26) for i in range(n))),), fin=True)
    return fn


def _mk_push_value(n):
    def fn(S):
        S.prime()
        sid, h = _open(S)
        psid = S.push(sid, PUSHREQ + ((b"x-pad", b"p" * n),))
        S.headers(sid, h, fin=True)
        S.headers(psid, RESP, fin=True)
    return fn


SIZE_SWEEP = list(range(0, 140)) + [16381, 16382, 16383, 16384, 16385]
for _n in SIZE_SWEEP:
    SHAPES.append(Shape(_mk_body(_n), "size_sweep_body", name="size_body_%d" % _n, rt_only=True))
    if _n < 140:
        SHAPES.append(Shape(_mk_header_value(_n), "size_sweep_headers", name="size_header_%d" % _n, rt_only=True))
        SHAPES.append(Shape(_mk_trailer_value(_n), "size_sweep_trailers", name="size_trailer_%d" % _n, rt_only=True,
                            quick=_n % 2 == 0))
        SHAPES.append(Shape(_mk_push_value(_n), "size_sweep_push_promise", name="size_push_%d" % _n, rt_only=True,
                            roles=("server",), quick=_n % 2 == 1))
SHAPE_BY_NAME = {s.name: s for s in SHAPES}

_SCEN = {}


def scenario(name, role):
    """Run the shape once per process against a real sender."""
    key = (name, role)
    sc = _SCEN.get(key)
    if sc is None:
        sh = SHAPE_BY_NAME[name]
        S = Sender(role == "client", wt=sh.wt)
        try:
            sh.fn(S)
        except Exception as e:  # the sending API refused a valid write pattern
            import traceback

            tb = traceback.extract_tb(e.__traceback__)
            api = [f.name for f in tb if f.filename.endswith("h3/connection.py")]
            sc = {"error": type(e).__name__, "api": api[0] if api else "?", "shape": name,
                  "cls": sh.cls, "role": role}
            _SCEN[key] = sc
            return sc
        sc = S.result()
        sc["shape"] = name
        sc["cls"] = sh.cls
        sc["role"] = role
        sc["ctrl"] = S.h3._local_control_stream_id
        sc["enc"] = S.h3._local_encoder_stream_id
        sc["dec"] = S.h3._local_decoder_stream_id
        sc["push_streams"] = dict(S.push_of)
        # determinism of the sender: a second run must give the same bytes
        S2 = Sender(role == "client", wt=sh.wt)
        sh.fn(S2)
        if S2.result()["streams"] != sc["streams"]:
            raise core.HarnessError("sender bytes of shape %s/%s are not deterministic" % key)
        _SCEN[key] = sc
    return sc


def kind(sc, sid):
    if sid == "d":
        return "datagrams"
    if sid == sc["ctrl"]:
        return "control"
    if sid == sc["enc"]:
        return "qpack_encoder"
    if sid == sc["dec"]:
        return "qpack_decoder"
    if sid in sc["push_streams"]:
        return "push"
    if sid & 2:
        return "uni"
    return "message" if sid % 4 == 0 else "bidi_server"


def app_streams(sc):
    return [s for s in sc["order"] if s not in (sc["ctrl"], sc["enc"], sc["dec"])]


# ============================================================ delivery plans
# step = ("w", sid) whole stream | ("c", sid, off, n, fin) chunk | ("g", i) datagram
def run_plan(sc, plan, trace=False):
    R = Receiver(sc)
    if trace:
        R.trace = []
    for st in plan:
        apply_step(R, sc, st)
    return R


def apply_step(R, sc, st):
    if st[0] == "w":
        R.whole(sc, st[1])
    elif st[0] == "c":
        _, sid, off, n, fin = st
        R.stream(sid, sc["streams"][sid]["data"][off : off + n], fin)
    else:
        R.datagram(sc["streams"]["d"]["grams"][st[1]])


def canonical(sc):
    """Normal form of the one-delivery-per-stream run (sender order)."""
    c = sc.get("_canon")
    if c is None:
        plan = [("w", sid) for sid in sc["order"]]
        c = run_plan(sc, plan).final()
        if run_plan(sc, plan).final() != c:
            raise core.HarnessError("receiver is not deterministic on %s" % sc["shape"])
        sc["_canon"] = c
    return c


def variant_plan(sc, xs, variant):
    """(before, after) whole-stream steps around the streams under test."""
    others = [s for s in sc["order"] if s not in xs]
    if variant == "ctx_first":
        before, after = others, []
    elif variant == "enc_after":
        before = [s for s in others if s != sc["enc"]]
        after = [s for s in others if s == sc["enc"]]
    elif variant == "all_after":
        before, after = [], others
    else:
        raise ValueError(variant)
    return [("w", s) for s in before], [("w", s) for s in after]


def variants_for(sc, xs):
    v = ["ctx_first"]
    if sc["enc"] not in xs:
        v.append("enc_after")
    v.append("all_after")
    return v


# ===================================================== BFS over splittings
_B = {}  # context of the BFS running in this process


def _digest(obj):
    """sha256 of the canonical state (keeps keys small when the frontier is
    shipped to pool workers; tuples of bytes/ints/str/None/bool only)."""
    return hashlib.sha256(repr(obj).encode()).digest()


def _moves(pos):
    """pos: tuple of (k, fin_done) per stream under test."""
    out = []
    for i, (k, fd) in enumerate(pos):
        n, fin = _B["n"][i], _B["fin"][i]
        if k < n:
            for c in range(1, n - k + 1):
                out.append((i, c, False))
                if fin and k + c == n:
                    out.append((i, c, True))
        elif fin and not fd:
            out.append((i, 0, True))
    return out


def _hist_steps(hist):
    xs = _B["xs"]
    pos = [0] * len(xs)
    steps = []
    for i, c, f in hist:
        steps.append(("c", xs[i], pos[i], c, f))
        pos[i] += c
    return steps


def _bfs_expand(node):
    key, _, hist = node
    sc = _B["sc"]
    pos = key[0]
    out = []
    for mv in _moves(pos):
        R = Receiver(sc)
        for st in _B["before"]:
            apply_step(R, sc, st)
        for st in _hist_steps(hist + [mv]):
            apply_step(R, sc, st)
        _B["runs"] += 1
        i, c, f = mv
        npos = tuple(
            (k + c, fd or f) if j == i else (k, fd) for j, (k, fd) in enumerate(pos)
        )
        done = all(
            k == _B["n"][j] and (fd or not _B["fin"][j]) for j, (k, fd) in enumerate(npos)
        )
        if done or R.nf.raised is not None:
            for st in _B["after"]:
                apply_step(R, sc, st)
            fin_nf = R.final()
            viol = None
            if fin_nf != _B["base"]:
                names, text = h3drive.nf_diff(_B["base"], fin_nf)
                viol = (names, text)
            out.append((mv, None, None, viol, fin_nf))
        else:
            nkey = (npos, _digest((R.state(), R.nf.freeze(R.quic.closed))))
            out.append((mv, nkey, None, None, None))
    return out


def bfs_case(item, workers=1):
    """item = (shape, role, xs tuple, variant).  All splittings (and, for two
    streams, all interleavings) of the streams xs with state merging."""
    name, role, xs, variant = item
    sc = scenario(name, role)
    t0 = time.time()
    before, after = variant_plan(sc, xs, variant)
    base_plan = before + [("w", x) for x in xs] + after
    base = run_plan(sc, base_plan).final()
    _B.clear()
    _B.update(
        sc=sc,
        xs=list(xs),
        n=[len(sc["streams"][x]["data"]) for x in xs],
        fin=[sc["streams"][x]["fin"] for x in xs],
        before=before,
        after=after,
        base=base,
        runs=0,
    )
    pos0 = tuple((0, False) for _ in xs)
    R0 = Receiver(sc)
    for st in before:
        apply_step(R0, sc, st)
    root = ((pos0, _digest((R0.state(), R0.nf.freeze(R0.quic.closed)))), None, [])
    res = explore.bfs([root], _bfs_expand, workers=workers, name="c14.bfs")
    viols = []
    seen = set()
    for names, text, hist in res.violations:
        if names in seen:
            continue  # BFS order: first is shortest
        seen.add(names)
        steps = before + _hist_steps(hist) + after
        viols.append(
            {
                "monitor": "chunking" if len(xs) == 1 else "chunking_interleaving",
                "diff": names,
                "text": text,
                "plan": steps,
                "base_plan": base_plan,
                "under_test": [kind(sc, x) for x in xs],
                "variant": variant,
                "splitting": _fmt_hist(sc, xs, hist),
            }
        )
    canon = canonical(sc)
    inter = None
    if base != canon:
        names, text = h3drive.nf_diff(canon, base)
        inter = {
            "monitor": "interleaving",
            "diff": names,
            "text": text,
            "plan": base_plan,
            "base_plan": [("w", s) for s in sc["order"]],
            "under_test": [kind(sc, x) for x in xs],
            "variant": variant,
            "splitting": "whole streams in order " + " ".join(str(s[1]) for s in base_plan),
        }
    return {
        "item": item,
        "states": res.states,
        "transitions": res.transitions,
        "runs": res.transitions,  # one fresh receiver run per transition
        "closed": res.closed,
        "max_depth": res.max_depth,
        "finals": len(res.outcomes),
        "outcomes": set(res.outcomes),
        "viols": viols,
        "inter": inter,
        "bytes": sum(_B["n"]),
        "wall": time.time() - t0,
        "sample": res.samples[:1],
    }


def _fmt_hist(sc, xs, hist):
    parts = []
    for i, c, f in hist:
        parts.append("[%s%d%s]" % ("" if len(xs) == 1 else "s%s:" % xs[i], c, "+FIN" if f else ""))
    n = ["%d bytes%s" % (len(sc["streams"][x]["data"]), "+FIN" if sc["streams"][x]["fin"] else "") for x in xs]
    return "stream(s) %s (%s) delivered as %s" % (
        ",".join(str(x) for x in xs), ", ".join(n), "".join(parts))


# ================================================ interleaving enumeration
def cut_candidates(st, wide):
    """Cut positions of a stream: at and just after every send_stream_data call
    boundary (frame boundaries) and after the first byte; `wide`: every position."""
    n = len(st["data"])
    if wide:
        return list(range(1, n))
    c = {1}
    for b in st["bounds"]:
        c.update((b, b + 1))
    return sorted(p for p in c if 1 <= p <= n - 1)


def chunkings(sc, sid, wide):
    """All ways to cut stream `sid` into <= 3 deliveries at candidate positions
    (FIN attached to the last chunk, or - using up one of the three - alone).
    The first entry is the default cut."""
    st = sc["streams"][sid]
    if sid == "d":
        return [[("g", i) for i in range(len(st["grams"]))]]
    n, fin = len(st["data"]), st["fin"]
    cands = cut_candidates(st, wide)
    outs = []

    def mk(cuts, fin_alone):
        edges = [0] + list(cuts) + [n]
        ch = []
        for a, b in zip(edges, edges[1:]):
            ch.append(("c", sid, a, b - a, fin and not fin_alone and b == n))
        if fin_alone:
            ch.append(("c", sid, n, 0, True))
        return ch

    # default: cut just after the first frame boundary and just before the end
    if n >= 3:
        inner = [b for b in st["bounds"] if 0 < b < n]
        p = min(n - 2, (inner[0] + 1) if inner else 1)
        q = n - 1
        default = (p, q) if p < q else (1, n - 1)
        outs.append(mk(default, False))
    elif n == 2:
        outs.append(mk((1,), False))
    else:
        outs.append(mk((), False))
    seen = {tuple(outs[0])}
    for p, q in itertools.combinations(cands, 2):
        ch = mk((p, q), False)
        if tuple(ch) not in seen:
            seen.add(tuple(ch))
            outs.append(ch)
    for p in cands:
        for fa in ((False, True) if fin else (False,)):
            ch = mk((p,), fa)
            if tuple(ch) not in seen:
                seen.add(tuple(ch))
                outs.append(ch)
    if fin:
        ch = mk((), True)
        if tuple(ch) not in seen:
            outs.append(ch)
    return outs


def merges(counts):
    """All interleavings of len(counts) sequences of the given lengths, as
    tuples of stream indices, fewest context switches first."""
    total = sum(counts)
    out = []

    def rec(rem, acc):
        if len(acc) == total:
            out.append(tuple(acc))
            return
        order = list(range(len(rem)))
        if acc:  # prefer continuing the same stream
            order.sort(key=lambda i: i != acc[-1])
        for i in order:
            if rem[i]:
                rem[i] -= 1
                acc.append(i)
                rec(rem, acc)
                acc.pop()
                rem[i] += 1

    rec(list(counts), [])
    out.sort(key=lambda m: sum(1 for a, b in zip(m, m[1:]) if a != b))
    return out


_MERGES = {}


def inter_case(item):
    """item = (shape, role, sids, vary_index, mode).  The streams `sids` are cut
    into <= 3 chunks; stream sids[vary_index] goes through its chunkings
    (mode: 'default' = only the default cut, 'bounds' = cuts around frame
    boundaries, 'all' = every cut position, ('slice', k, m) = every m-th
    chunking starting at k), the others use their default cut; every
    order-preserving merge is run."""
    name, role, sids, vary, mode = item
    sc = scenario(name, role)
    t0 = time.time()
    canon = canonical(sc)
    pre = [("w", s) for s in sc["order"] if s not in sids]
    defaults = [chunkings(sc, s, False)[0] for s in sids]
    if mode == "default":
        configs = [defaults]
    else:
        wide = mode == "all"
        alts = chunkings(sc, sids[vary], wide)
        if isinstance(mode, tuple):
            alts = alts[mode[1] :: mode[2]]
        else:
            alts = alts[1:]  # the default cut is covered by the 'default' item
        configs = [defaults[:vary] + [a] + defaults[vary + 1 :] for a in alts]
    runs = 0
    finals = set()
    best = {}
    for chunks in configs:
        counts = tuple(len(c) for c in chunks)
        ms = _MERGES.get(counts)
        if ms is None:
            ms = _MERGES[counts] = merges(counts)
        for m in ms:
            idx = [0] * len(chunks)
            plan = list(pre)
            for i in m:
                plan.append(chunks[i][idx[i]])
                idx[i] += 1
            fin_nf = run_plan(sc, plan).final()
            runs += 1
            finals.add(fin_nf)
            if fin_nf != canon:
                names, text = h3drive.nf_diff(canon, fin_nf)
                sw = sum(1 for a, b in zip(m, m[1:]) if a != b)
                cost = (sw, len(plan))
                if names not in best or cost < best[names][0]:
                    best[names] = (cost, text, plan)
    viols = []
    group_order = [s for s in sc["order"] if s in sids]
    whole_plan = list(pre) + [("w", s) for s in group_order]
    whole_nf = run_plan(sc, whole_plan).final() if best else canon
    for names, (cost, text, plan) in sorted(best.items()):
        # classify: (1) whole streams in this context order already differ from
        # the sender-order run -> interleaving of whole streams; (2) same chunks
        # delivered stream after stream differ -> chunking; (3) only the merge
        # differs -> interleaving of chunks
        monitor = "interleaving"
        if whole_nf != canon:
            plan = whole_plan
            names, text = h3drive.nf_diff(canon, whole_nf)
        else:
            seq = list(pre) + [st for s in group_order for st in chunks_of(plan[len(pre):], s)]
            seq_nf = run_plan(sc, seq).final()
            if seq_nf != canon:
                monitor = "chunking"
                plan = seq
                names, text = h3drive.nf_diff(canon, seq_nf)
        viols.append(
            {
                "monitor": monitor,
                "diff": names,
                "text": text,
                "plan": plan,
                "base_plan": [("w", s) for s in sc["order"]],
                "under_test": [kind(sc, s) for s in sids],
                "variant": "merge",
                "splitting": "deliveries " + " ".join(_fmt_step(s) for s in plan),
            }
        )
    return {
        "item": item,
        "runs": runs,
        "configs": len(configs),
        "finals": len(finals),
        "outcomes": finals,
        "viols": viols,
        "wall": time.time() - t0,
    }


def chunks_of(steps, sid):
    return [st for st in steps if (st[1] == sid if st[0] != "g" else sid == "d")]


def _fmt_step(st):
    if st[0] == "w":
        return "%s:all" % (st[1],)
    if st[0] == "g":
        return "dgram%d" % st[1]
    return "%s:[%d..%d%s]" % (st[1], st[2], st[2] + st[3], "+FIN" if st[4] else "")


def inter_groups(sc):
    """Which stream groups are interleaved for a scenario."""
    apps = app_streams(sc)
    groups = []
    if apps:
        groups.append((sc["ctrl"], sc["enc"], apps[0]))
    if len(apps) >= 2:
        groups.append((sc["enc"], apps[-2], apps[-1]))
        groups.append((sc["enc"], apps[-1]))
        groups.append((apps[0], apps[1]))
    if len(apps) >= 3:
        groups.append(tuple(apps[-3:]))
    out = []
    for g in groups:
        if g not in out:
            out.append(g)
    return out


# ============================================================== round trip
def roundtrip_case(item):
    name, role = item
    sc = scenario(name, role)
    if sc.get("error"):
        return {"item": item, "viol": {"sender_error": sc["error"], "api": sc["api"]},
                "valid": True, "canon": ("sender_error", sc["error"]), "sizes": {}, "nonempty": False}
    canon = canonical(sc)
    exp = sc["expected"]
    viol = None
    if exp is not None and exp != canon:
        names, text = h3drive.nf_diff(exp, canon)
        viol = {
            "monitor": "roundtrip",
            "diff": names,
            "text": "submitted vs received: " + text,
            "plan": [("w", s) for s in sc["order"]],
            "base_plan": None,
            "under_test": [kind(sc, s) for s in app_streams(sc)],
            "variant": "sender_order",
            "splitting": "one delivery per stream",
        }
    sizes = {str(s): (len(st["data"]) if s != "d" else len(st["grams"])) for s, st in sc["streams"].items()}
    return {"item": item, "viol": viol, "valid": exp is not None, "canon": canon, "sizes": sizes,
            "nonempty": canon[0] == "open" and bool(canon[1] or canon[2])}


# ===================================================================== main
WATCHDOG_S = 900  # per case; the slowest legitimate case takes seconds


def _alarm(signum, frame):
    raise core.HarnessError(
        "watchdog: a case did not finish within %d s (handle_event not returning?)" % WATCHDOG_S)


def _work(item):
    import signal

    signal.signal(signal.SIGALRM, _alarm)
    signal.alarm(WATCHDOG_S)
    try:
        k = item[0]
        if k == "bfs":
            return bfs_case(item[1:])
        if k == "inter":
            return inter_case(item[1:])
        return roundtrip_case(item[1:])
    finally:
        signal.alarm(0)


def _report(ctx, sc_item, v):
    name, role = sc_item
    sh = SHAPE_BY_NAME[name]
    if v.get("sender_error"):
        sig = {"monitor": "sender", "cls": sh.cls, "diff": "sending_api_raised",
               "detail": "%s in %s" % (v["sender_error"], v["api"])}
        ctx.violation(sig, "shape %s (sender=%s): the sending API raised %s in %s for a valid "
                      "write pattern" % (name, role, v["sender_error"], v["api"]),
                      {"shape": name, "role": role, "sender_error": v["sender_error"]})
        return
    # replay twice on fresh objects before reporting (DESIGN 2.3)
    sc = scenario(name, role)
    plan = [tuple(s) for s in v["plan"]]
    Ra = run_plan(sc, plan)
    a = Ra.final()
    if a != run_plan(sc, plan).final():
        raise core.HarnessError("violation does not replay deterministically: %s" % v["text"])
    if v["base_plan"] is not None:
        Rb = run_plan(sc, [tuple(s) for s in v["base_plan"]])
        b, b_closed = Rb.final(), Rb.quic.closed
    else:
        b, b_closed = sc["expected"], None
    if a == b:
        raise core.HarnessError("violation vanished on replay: %s" % v["text"])
    # structural signature: which oracle, which input class, which part of the
    # normal form differs and where (role, context order and the exact cut are
    # in `what`)
    if v["diff"] == "connection_outcome":
        detail = "%s vs %s" % (_closed_txt(b_closed), _closed_txt(Ra.quic.closed))
    else:
        da, db = dict(a[1]), dict(b[1])
        detail = "+".join(sorted({kind(sc, s) for s in set(da) | set(db) if da.get(s) != db.get(s)}))
    sig = {"monitor": v["monitor"], "cls": sh.cls, "diff": v["diff"], "detail": detail}
    what = "shape %s (sender=%s, under test: %s, context: %s): %s: %s [%s]" % (
        name, role, "+".join(v["under_test"]), v["variant"], v["monitor"], v["text"],
        v["splitting"])
    replay_obj = {"shape": name, "role": role, "plan": v["plan"], "base_plan": v["base_plan"],
                  "monitor": v["monitor"]}
    ctx.violation(sig, what, replay_obj)


def _closed_txt(c):
    return "open" if c is None else "closed 0x%x %s" % (c[0], c[1])


def plan_items(ctx):
    quick = ctx.tier == "quick"
    shapes = [s for s in SHAPES if (s.quick or not quick)]
    extra = []
    if quick:
        rest = [s for s in SHAPES if not s.quick and not s.rt_only]
        n_slices = 6
        extra = [s for i, s in enumerate(rest) if i % n_slices == ctx.seed % n_slices]
    items_rt, items_bfs, items_inter = [], [], []
    for sh in shapes + extra:
        is_extra = sh in extra
        for role in sh.roles:
            sc = scenario(sh.name, role)
            items_rt.append(("rt", sh.name, role))
            if sc.get("error") or sh.rt_only:
                continue
            for x in sc["order"]:
                if x == "d":
                    continue
                if is_extra and x in (sc["ctrl"], sc["enc"], sc["dec"]):
                    continue
                for v in variants_for(sc, (x,)):
                    items_bfs.append(("bfs", sh.name, role, (x,), v))
            apps = app_streams(sc)
            if sh.pair and (not quick or sh.name == "dyn" or sh.pair_quick):
                enc = sc["enc"]
                tgt = [a for a in apps if a != "d"]
                # the message streams that reference the dynamic table: all but the first
                for a in (tgt[:1] if sh.name == "dyn_push_min" else tgt[1:]):
                    if quick and a != tgt[1]:
                        continue
                    for v in ("ctx_first", "all_after"):
                        if quick and sh.pair_quick and v != "ctx_first":
                            continue  # quick: one context order for the extra pair shape
                        items_bfs.append(("bfs", sh.name, role, (enc, a), v))
            if is_extra:
                continue
            for g in inter_groups(sc):
                items_inter.append(("inter", sh.name, role, g, 0, "default"))
                for vi in range(len(g)):
                    if g[vi] == "d":
                        continue
                    if quick:
                        # seed-selected slice of the thorough cut grammar
                        items_inter.append(("inter", sh.name, role, g, vi, ("slice", 1 + ctx.seed % 16, 16)))
                    elif len(g) == 2:
                        items_inter.append(("inter", sh.name, role, g, vi, "all"))
                    else:
                        items_inter.append(("inter", sh.name, role, g, vi, "bounds"))
    return shapes + extra, items_rt, items_bfs, items_inter


def run(ctx):
    import signal

    signal.signal(signal.SIGALRM, _alarm)
    signal.alarm(WATCHDOG_S)  # building the scenarios drives real senders/receivers
    try:
        shapes, items_rt, items_bfs, items_inter = plan_items(ctx)
    finally:
        signal.alarm(0)
    parts = ctx.only_parts
    outcomes = set()

    # ---- round trip / baseline
    if not parts or "roundtrip" in parts:
        res = core.pmap(_work, items_rt)
        n_valid = sum(1 for r in res if r["valid"])
        nonempty = sum(1 for r in res if r["nonempty"])
        for r in res:
            outcomes.add(r["canon"])
            if r["viol"]:
                _report(ctx, r["item"], r["viol"])
        ctx.part("roundtrip", evaluations=len(res), valid_shapes=n_valid,
                 distinct_nontrivial=len({r["canon"] for r in res}), shapes_with_events=nonempty)
        for r in [r for r in res if r["sizes"]][:3]:
            ctx.sample({"part": "roundtrip", "shape": r["item"][0], "sender": r["item"][1],
                        "stream_bytes": r["sizes"], "normal_form": h3drive.nf_json(r["canon"])})
        if len({r["canon"] for r in res}) < 3:
            raise core.HarnessError("roundtrip: vacuous (fewer than 3 distinct normal forms)")

    # ---- all splittings with state merging
    if not parts or "split" in parts or "pair" in parts:
        items = items_bfs
        if parts and "pair" not in parts:
            items = [i for i in items if len(i[3]) == 1]
        if parts and "split" not in parts:
            items = [i for i in items if len(i[3]) == 2]
        # longest first for load balance
        items.sort(key=lambda i: -sum(len(scenario(i[1], i[2])["streams"][x]["data"]) for x in i[3]) ** len(i[3]))
        def big(i):
            if len(i[3]) != 2:
                return False
            st = scenario(i[1], i[2])["streams"]
            return len(st[i[3][0]]["data"]) * len(st[i[3][1]]["data"]) > 600

        res = core.pmap(_work, [i for i in items if not big(i)], ordered=True)
        # large two-stream BFS: one case at a time, frontier expanded by the pool
        res += [bfs_case(i[1:], workers=core.NCPU) for i in items if big(i)]
        for nm, sel in (("split", 1), ("pair", 2)):
            rs = [r for r in res if len(r["item"][2]) == sel]
            if not rs:
                continue
            finals = set()
            for r in rs:
                finals |= r["outcomes"]
            ctx.part(
                nm,
                cases=len(rs),
                states=sum(r["states"] for r in rs),
                transitions=sum(r["transitions"] for r in rs),
                evaluations=sum(r["runs"] for r in rs),
                traces_validated_against_impl=sum(r["runs"] for r in rs),
                distinct_nontrivial=len(finals),
                max_stream_bytes=max(r["bytes"] for r in rs),
                max_depth=max(r["max_depth"] for r in rs),
                closure=all(r["closed"] for r in rs),
                slowest_case_s=round(max(r["wall"] for r in rs), 2),
            )
            outcomes |= finals
            if not all(r["closed"] for r in rs):
                ctx.cap("%s: BFS closure not reached" % nm)
            for r in rs[:2]:
                ctx.sample({"part": nm, "case": list(r["item"]), "states": r["states"],
                            "transitions": r["transitions"], "history": r["sample"]})
        # deterministic reporting order: by shape order, then item
        order = {s.name: i for i, s in enumerate(SHAPES)}
        vorder = {"ctx_first": 0, "enc_after": 1, "all_after": 2}
        for r in sorted(res, key=lambda r: (order[r["item"][0]], r["item"][1], len(r["item"][2]),
                                            vorder[r["item"][3]], repr(r["item"]))):
            for v in r["viols"]:
                _report(ctx, r["item"][:2], v)
            if r["inter"]:
                _report(ctx, r["item"][:2], r["inter"])

    # ---- interleavings of <= 3 chunks per stream
    if not parts or "inter" in parts:
        res = core.pmap(_work, items_inter, ordered=True)
        finals = set()
        for r in res:
            finals |= r["outcomes"]
        ctx.part(
            "inter",
            cases=len(res),
            cut_configurations=sum(r["configs"] for r in res),
            evaluations=sum(r["runs"] for r in res),
            traces_validated_against_impl=sum(r["runs"] for r in res),
            distinct_nontrivial=len(finals),
            slowest_case_s=round(max([r["wall"] for r in res] or [0]), 2),
        )
        outcomes |= finals
        order = {s.name: i for i, s in enumerate(SHAPES)}
        for r in sorted(res, key=lambda r: (order[r["item"][0]], r["item"][1], repr(r["item"]))):
            for v in r["viols"]:
                _report(ctx, r["item"][:2], v)
        for r in res[:1]:
            ctx.sample({"part": "inter", "case": [str(x) for x in r["item"]], "runs": r["runs"]})

    if len(outcomes) < 3:
        raise core.HarnessError("vacuous exploration: %d distinct outcomes" % len(outcomes))
    ctx.cov["rule"] = (
        "real sender H3Connection -> per-stream byte strings; (split) BFS with state merging over "
        "every splitting of every stream (every chunk size >= 1, FIN attached or alone) under 3 "
        "whole-stream context orders; (pair) the same BFS over the QPACK encoder stream and a "
        "message stream simultaneously (all splittings x all interleavings); (inter) 2-3 streams "
        "cut into <= 3 chunks, every order-preserving merge; final normal form compared with the "
        "one-delivery-per-stream run and, for valid shapes, with what was submitted"
    )
    ctx.cov["exhaustive"] = not ctx.caps_hit
    max_bytes = max(
        len(st["data"]) for sh in shapes for role in sh.roles
        for sid, st in scenario(sh.name, role).get("streams", {}).items() if sid != "d")
    ctx.cov["bounds"] = {
        "shapes": len(shapes),
        "shape_role_pairs": len(items_rt),
        "split": "every stream of every shape x contexts {ctx_first, enc_after, all_after}; every "
                 "chunk size >= 1 at every position, FIN attached or alone; longest stream %d bytes"
                 % max_bytes,
        "pair": "QPACK encoder stream x each message stream that references the dynamic table "
                "(quick: shape dyn, second message only), contexts {ctx_first, all_after}",
        "inter": "groups (control, encoder, first message), (encoder, last two messages), "
                 "(encoder, last message), (first two messages), (last three messages); <= 3 chunks "
                 "per stream; cut grammar: default cut (after first frame boundary + 1, before last "
                 "byte) for all, then one stream at a time through every cut pair/single cut/FIN "
                 "alone at positions {1, b, b+1 for each frame boundary b} (3-stream "
                 "groups) or at every position (2-stream groups); quick: default cuts + every 16th "
                 "configuration starting at 1 + seed mod 16",
        "tier_note": "quick: core shapes + seed-selected sixth of the thorough-only shapes "
                     "(message streams only)",
    }
    ctx.assumptions += [
        "state merging: the receiver's reaction to further bytes is a function of every H3Stream "
        "field, every scalar H3Connection field, the bytes it has sent and the normal form so far; "
        "the internal state of the pylsqpack decoder (third-party C library) is assumed to be a "
        "function of the encoder-stream bytes and header blocks fed so far - the unmerged 'inter' "
        "enumeration does not rely on this",
        "a delivery is never empty unless it carries the FIN",
        "when the receiver closes the connection only the close code is compared (handle_event "
        "discards the events of the delivery in which the error is detected)",
        "cross-stream order of events is not compared (the property names per-stream content)",
    ]


# =================================================================== replay
def replay(ctx, obj):
    rp = obj["replay"]
    sc = scenario(rp["shape"], rp["role"])
    if sc.get("error") or rp.get("sender_error"):
        print("shape %s, sender role %s: sending API raised %s (expected %s)" % (
            rp["shape"], rp["role"], sc.get("error"), rp.get("sender_error")))
        if sc.get("error"):
            print("VIOLATION property=C14 replay=(replayed)")
            return 1
        print("no violation on replay")
        return 0
    print("shape %s, sender role %s; streams sent by the real sender:" % (rp["shape"], rp["role"]))
    for sid in sc["order"]:
        st = sc["streams"][sid]
        if sid == "d":
            print("  datagrams: %s" % [g.hex() for g in st["grams"]])
        else:
            print("  stream %d (%s): %s%s" % (sid, kind(sc, sid), st["data"].hex(), " +FIN" if st["fin"] else ""))

    def show(title, plan):
        print(title)
        R = run_plan(sc, [tuple(s) for s in plan], trace=True)
        for sid, data, fin, evs, closed in R.trace:
            print("  deliver %s %s%s -> %s%s" % (
                "datagram" if sid == "d" else "stream %d" % sid, data.hex() or "(empty)",
                " +FIN" if fin else "", evs, "  [closed %r]" % (closed,) if closed else ""))
        nf = R.final()
        print("  normal form: %s" % core.jdump(h3drive.nf_json(nf)))
        return nf

    got = show("violating delivery plan:", rp["plan"])
    if rp.get("base_plan"):
        ref = show("reference delivery plan:", rp["base_plan"])
    else:
        ref = sc["expected"]
        print("submitted through the sending API: %s" % core.jdump(h3drive.nf_json(ref)))
    if got != ref:
        names, text = h3drive.nf_diff(ref, got)
        print("differs in %s: %s" % (names, text))
        print("VIOLATION property=C14 replay=(replayed)")
        return 1
    print("no violation on replay")
    return 0
