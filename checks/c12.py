"""C12 - acknowledgements are sound and timely.

World: NetSim; engine: deviation-bounded DFS (E1) over arrival orders, duplicates,
losses (including of ACKs and of the packets acknowledging them), late timers; pacing
left enabled.  Oracle: AckMonitor (ACK frames of decrypted outgoing packets versus the
simulator's record of delivered genuine packets and their arrival times).
"""
from vlib import core, netcheck, netsim
from vlib.monitors import AckMonitor

LEVEL = "model_checking"
V1, V2 = netsim.V1, netsim.V2


def W(sid, n, fin=False, g="hs"):
    return {"op": "w", "sid": sid, "n": n, "fin": fin, "g": g}


SCRIPTS = {
    "bidir_long": {"c": [W(0, 9000), W(0, 9000, True, g=("rx", 1, 3000))],
                   "s": [W(1, 9000), W(1, 9000, True, g=("rx", 0, 3000))]},
    "one_way_bulk": {"c": [W(0, 20000, True)]},
    "pingpong": {"c": [W(0, 100), W(0, 100, g=("rx", 0, 100)), W(0, 100, True, g=("rx", 0, 200))],
                 "s": [W(0, 100, g=("rx", 0, 100)), W(0, 100, g=("rx", 0, 200)), W(0, 100, True, g=("rx", 0, 300))]},
    "pings": {"c": [{"op": "ping", "uid": 1}, {"op": "ping", "uid": 2, "g": ("acked", 1)},
                    {"op": "ping", "uid": 3, "g": ("acked", 2)}],
              "s": [{"op": "ping", "uid": 7}]},
    "hs_only": {"c": []},
    "bigchain_hs": {"c": [{"op": "ping", "uid": 1}]},
    "small_sparse": {"c": [W(0, 10), W(4, 10, g=("t", 0.1)), W(8, 10, g=("t", 0.3)), W(0, 10, True, g=("t", 0.5))]},
}


def goal(w):
    for name in ("c", "s"):
        ep = w.ep[name]
        if ep.op_i < len(ep.ops):
            return False
        for o in ep.ops:
            if o["op"] == "ping" and o["uid"] not in ep.pings_acked:
                return False
    peer = {"c": "s", "s": "c"}
    for name in ("c", "s"):
        for sid, (n, fin, rst) in w.written(name).items():
            if len(w.ep[peer[name]].rx.get(sid, b"")) < n:
                return False
    return True


def factory(sc):
    if "ops" in sc:
        kw = {"max_steps": 900, "horizon": 60.0, "deviations": tuple(sc.get("dev", ("drop",)))}
        return netsim.resolve_tickets(dict(sc["cfg"])), sc["ops"], [AckMonitor()], kw, goal
    cfg = dict(sc.get("cfg", {}))
    if sc["script"] == "bigchain_hs":
        cfg["chain"] = "bigchain"
    kw = {"max_steps": 500, "horizon": 60.0,
          "deviations": tuple(sc.get("dev", ("drop", "dup", "delay", "late", "hold")))}
    return cfg, SCRIPTS[sc["script"]], [AckMonitor()], kw, goal


netcheck.register("c12", factory)


def sig_extra(sig, sid, devs):
    s = dict(sig)
    s["deviation_kinds"] = sorted(set(d[1] for d in devs))
    return s


def run(ctx):
    quick = ctx.tier == "quick"
    sc = {}
    for name in SCRIPTS:
        sc[name + "|v1"] = {"script": name, "cfg": {}}
        if not quick or name in ("pingpong", "hs_only"):
            sc[name + "|v2cubic"] = {"script": name, "cfg": {"version": V2, "cc": "cubic"}}
    for name in ("hs_only", "pingpong"):
        sc[name + "|compat"] = {"script": name, "cfg": {"version": V1, "c_supported": [V2, V1], "s_supported": [V2, V1]}}
    agg = netcheck.explore_scenarios(ctx, "c12", sc, 1, "d1", sig_extra=sig_extra)
    small = ["pingpong", "pings", "hs_only", "small_sparse", "bigchain_hs"]
    if quick:
        k = small[ctx.seed % len(small)]
        sc2 = {k + "|d2": {"script": k, "cfg": {}, "dev": ("drop", "delay", "late")}}
    else:
        sc2 = {k + "|d2": {"script": k, "cfg": {}} for k in small}
        sc2["bidir_long|d2"] = {"script": "bidir_long", "cfg": {}, "dev": ("drop", "delay")}
    netcheck.explore_scenarios(ctx, "c12", sc2, 2, "d2", sig_extra=sig_extra)
    if not quick:
        sc3 = {k + "|d3": {"script": k, "cfg": {}, "dev": ("drop", "delay")} for k in ("pings", "hs_only")}
        netcheck.explore_scenarios(ctx, "c12", sc3, 3, "d3", sig_extra=sig_extra)
    # larger round-trip times: the pacing interval grows with the RTT and must never hold back an ACK
    lat = {}
    for la in (0.1, 0.2):
        for s_ in ("bidir_long", "pingpong", "small_sparse"):
            lat["%s|lat%s" % (s_, la)] = {"script": s_, "cfg": {"latency": la}, "dev": ("drop", "delay", "late")}
    netcheck.explore_scenarios(ctx, "c12", lat, 1 if quick else 2, "large_rtt", sig_extra=sig_extra)
    from vlib import cfgpairs

    netcheck.explore_scenarios(ctx, "c12", cfgpairs.scenarios(ctx.seed), 1, "config_pairs_d1", sig_extra=sig_extra)
    # a small packet from a new client address (NAT rebinding) on a long path: the acknowledgement competes with
    # the anti-amplification budget of the not yet validated path (known finding, see known_findings.d/C12.json)
    reb = {}
    for la in (0.01, 0.1):
        reb["ping_after_rebind|lat%s" % la] = {
            "ops": {"c": [{"op": "ping", "uid": 1}, {"op": "ping", "uid": 2, "g": ("t", 1.0)}], "s": []},
            "cfg": {"rebind_at": 0.6, "idle": 3.0, "latency": la}, "dev": ("drop",)}
    netcheck.explore_scenarios(ctx, "c12", reb, 1, "rebind_small_packets", sig_extra=sig_extra)
    if len(agg["outcomes"]) < 3:
        raise core.HarnessError("vacuous exploration")
    from checks import c12_gaps

    c12_gaps.run_gaps(ctx)
    c12_gaps.run_frame_kinds(ctx)
    ctx.cov["rule"] = (
        "deviation-bounded DFS over NetSim (pacing enabled): all schedules with <= d deviations (drop, "
        "duplicate, delay 30 ms / 1.5 s, timers 1 us / 20 ms late) of bidirectional scripts long enough "
        "for several ACK-of-ACK rounds; every ACK frame on the decrypted wire is checked against the set "
        "of genuine packets delivered to that endpoint in that space, 1-RTT ack-eliciting new-largest "
        "packets must be covered by an ACK leaving within 25 ms (only in executions where the harness was "
        "punctual for that endpoint), Initial/Handshake ones by the next transmission in the space")
    ctx.cov["exhaustive"] = not ctx.caps_hit
    ctx.cov["bounds"] = {"scripts": len(SCRIPTS), "deviation_bound": "1 (all), 2 (subset)" + ("" if quick else ", 3 (two)")}
    ctx.assumptions += ["an endpoint is taken to hold Handshake keys once its key log contains the handshake secrets",
                        "timeliness is judged only for endpoints whose timers the harness fired punctually"]


def replay(ctx, obj):
    if obj["replay"].get("part") == "frame_kinds":
        from checks import c12_gaps

        rp = obj["replay"]
        fr = dict(c12_gaps._kinds(rp["role"]))[rp["label"]]
        role, label, viol, state = c12_gaps.run_kind((rp["role"], rp["label"], fr))
        print(role, label, state, viol)
        if viol:
            print("VIOLATION property=C12 replay=(replayed): %s" % viol[1])
            return 1
        return 0
    if obj["replay"].get("part") == "gaps":
        from checks import c12_gaps

        r = c12_gaps.run_pattern((obj["replay"]["role"], [tuple(obj["replay"]["pattern"])]))
        for sig, what, rp in r["viol"]:
            print("VIOLATION property=C12 replay=(replayed): %s" % what)
            return 1
        print("no violation on replay")
        return 0
    v = netcheck.replay("c12", obj)
    if v:
        print("VIOLATION property=C12 replay=(replayed): %s" % v[1])
        return 1
    print("no violation on replay")
    return 0
