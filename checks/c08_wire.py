"""C08 part (ii): the wire half - in-flight bytes per datagrams_to_send() call versus the
congestion window, and the bytes_in_flight ledger on real connections (NetSim + E1)."""
from vlib import core, netcheck, netsim
from vlib.monitors import CongestionMonitor

V1, V2 = netsim.V1, netsim.V2


def W(sid, n, fin=False, g="hs"):
    return {"op": "w", "sid": sid, "n": n, "fin": fin, "g": g}


SCRIPTS = {
    "bulk_up": {"c": [W(0, 40000, True)]},
    "bulk_both": {"c": [W(0, 20000, True)], "s": [W(1, 20000, True)]},
    "early_bulk": {"c": [W(0, 30000, True, g="now")]},
    "many_streams": {"c": [W(0, 5000, True), W(4, 5000, True), W(8, 5000, True), W(2, 5000, True)]},
    "echo": {"c": [W(0, 3000, True)], "s": [W(0, 3000, True, g=("rxfin", 0))]},
    "hs_only": {"c": [{"op": "ping", "uid": 1}]},
    # the server's window is full when the client's address changes: on the not yet validated path the
    # anti-amplification budget and the congestion budget both apply
    "bulk_down": {"c": [W(0, 50, True)], "s": [W(0, 40000, True, g=("rxfin", 0))]},
    "bulk_down_chatty": {"c": [W(0, 50, True)] + [W(4 * i, 30, True, g=("rx", 0, 1200 * i)) for i in range(1, 12)],
                         "s": [W(0, 40000, True, g=("rxfin", 0))]},
    # resumed connection, early data written before the first transmit (only with the zr_* configurations)
    "zr_bulk": {"c": [W(0, 6000, g="pre"), W(0, 20000, True)]},
    "zr_echo": {"c": [W(0, 900, True, g="pre")], "s": [W(0, 3000, True, g=("rxfin", 0))]},
}
CFGS = {
    "reno": {"cc": "reno"},
    "cubic_v2": {"cc": "cubic", "version": V2},
    "retry": {"retry": True},
    "vn": {"vn": True},
    "bigchain": {"chain": "bigchain", "cc": "cubic"},
    # burst loss: everything sent between 25 ms and 300 ms is lost, probe timeouts fire with stream
    # data waiting and the window exhausted
    "blackout": {"blackout_from": 0.025, "blackout_until": 0.30},
    "blackout_cubic": {"cc": "cubic", "blackout_from": 0.031, "blackout_until": 0.5},
    # 0-RTT packets are in flight in the application space when the front end makes the client start over
    "zr_plain": {"tickets": "obtain"},
    "zr_retry": {"tickets": "obtain", "retry": True},
    "zr_vn_cubic": {"tickets": "obtain", "vn": True, "cc": "cubic"},
}


def goal(w):
    peer = {"c": "s", "s": "c"}
    for name in ("c", "s"):
        ep = w.ep[name]
        if ep.op_i < len(ep.ops):
            return False
        for sid, (n, fin, rst) in w.written(name).items():
            if len(w.ep[peer[name]].rx.get(sid, b"")) < n:
                return False
        for o in ep.ops:
            if o["op"] == "ping" and o["uid"] not in ep.pings_acked:
                return False
    return True


def factory(sc):
    if "ops" in sc:
        kw = {"max_steps": 900, "horizon": 60.0, "deviations": tuple(sc.get("dev", ("drop",)))}
        return netsim.resolve_tickets(dict(sc["cfg"])), sc["ops"], [CongestionMonitor()], kw, goal
    kw = {"max_steps": 700, "horizon": 60.0, "deviations": tuple(sc.get("dev", ("drop", "dup", "delay", "late", "hold")))}
    return netsim.resolve_tickets(dict(CFGS[sc["cfg"]])), SCRIPTS[sc["script"]], [CongestionMonitor()], kw, goal


netcheck.register("c08", factory)


def sig_extra(sig, sid, devs):
    s = dict(sig)
    s["cfg"] = sid.split("|")[1]
    return s


def run_wire(ctx):
    quick = ctx.tier == "quick"
    sc = {}
    for s in SCRIPTS:
        for c in CFGS:
            if c.startswith("blackout") and s not in ("bulk_up", "bulk_both", "many_streams"):
                continue
            if c.startswith("zr_") != s.startswith("zr_"):
                continue
            if s.startswith("bulk_down") and c not in ("reno", "cubic_v2"):
                continue
            if quick and c in ("bigchain", "cubic_v2") and s not in ("bulk_up", "hs_only"):
                continue
            sc["%s|%s" % (s, c)] = {"script": s, "cfg": c}
    agg = netcheck.explore_scenarios(ctx, "c08", {k: v for k, v in sc.items()}, 0, "wire_d0", sig_extra=sig_extra)
    small = {k: dict(v, dev=("drop", "delay", "late")) for k, v in sc.items()
             if v["script"] in ("echo", "hs_only", "early_bulk", "zr_echo")}
    if quick:
        keys = sorted(small)
        small = {k: small[k] for i, k in enumerate(keys) if i % 3 == ctx.seed % 3}
    # tail loss of a congestion-limited burst: PTO with stream data still waiting
    small["bulk_up|reno"] = dict(sc["bulk_up|reno"], dev=("drop",))
    small["bulk_up|cubic_v2"] = dict(sc["bulk_up|cubic_v2"], dev=("drop",))
    for s_ in ("bulk_down", "bulk_down_chatty"):
        for c_ in ("reno", "cubic_v2"):
            if quick and (s_, c_) not in (("bulk_down", "reno"), ("bulk_down_chatty", "cubic_v2")):
                continue
            small["%s|%s" % (s_, c_)] = {"script": s_, "cfg": c_, "dev": ("rebind",)}
    netcheck.explore_scenarios(ctx, "c08", small, 1, "wire_d1", sig_extra=sig_extra)
    if not quick:
        d2 = {k: v for k, v in small.items() if v["script"] in ("hs_only", "echo")}
        netcheck.explore_scenarios(ctx, "c08", d2, 2, "wire_d2", sig_extra=sig_extra)
    from vlib import cfgpairs

    netcheck.explore_scenarios(ctx, "c08", cfgpairs.scenarios(ctx.seed), 1, "wire_config_pairs_d1",
                               sig_extra=lambda sig, sid, devs: dict(sig, cfg="pairs"))
    if len(agg["outcomes"]) < 3:
        raise core.HarnessError("vacuous wire exploration")
    ctx.assumptions += [
        "wire half: in-flight bytes per datagrams_to_send() call are computed from the independently "
        "decrypted packets (any frame other than ACK/CONNECTION_CLOSE), compared with congestion_window - "
        "bytes_in_flight read just before the call, plus one datagram when a probe timeout fired since the "
        "previous transmission"]
