"""C07 - receive-side limits are enforced and buffering stays bounded.

World: PeerBot (real endpoint E with small advertised limits; the harness is a
key-holding peer).  Engine: explicit-state BFS with history replay (E2) over peer frame
sequences, plus bounded repetition menus.  Oracle: a reference receive-side flow
controller (RFC 9000 section 4) fed with the limits E put ON THE WIRE; E must close with a
matching error exactly when the reference says a limit was exceeded; measured buffer
sizes stay within the advertised / documented bounds.
"""
from vlib import core, explore, peerbot, refquic

LEVEL = "model_checking"

MSD = 8        # advertised per-stream limit (all stream kinds)
MD = 16        # advertised connection limit
NSTREAMS = 4   # advertised stream-count limits (bidi, uni)
FLOW, SLIMIT, SSTATE, FSIZE = 3, 4, 5, 6
NAMES = {3: "FLOW_CONTROL_ERROR", 4: "STREAM_LIMIT_ERROR", 5: "STREAM_STATE_ERROR", 6: "FINAL_SIZE_ERROR"}
BIG = (1 << 62) - 1


def data(sid, off, n):
    return bytes(((sid * 31 + o + 1) & 0xFF) for o in range(off, off + n))


class Ref:
    """Reference receive-side flow controller for endpoint E."""

    def __init__(self, e_is_server):
        self.server = e_is_server
        self.limit = {}      # sid -> advertised stream limit
        self.highest = {}
        self.final = {}
        self.recv = {}       # sid -> frozenset of received offsets
        self.unjudged = set()
        self.stopped = set()
        self.max_data = MD
        self.used = 0
        self.max_streams = {False: NSTREAMS, True: NSTREAMS}   # uni? -> count
        self.opened_by_e = set()
        self.known = set()   # streams E has created state for

    def peer_initiated(self, sid):
        client_initiated = sid % 2 == 0
        return client_initiated == self.server

    def observe(self, frames):
        """limits E advertises on the wire"""
        for f in frames:
            if f["t"] == "MAX_DATA":
                self.max_data = max(self.max_data, f["max"])
            elif f["t"] == "MAX_STREAM_DATA":
                self.limit[f["id"]] = max(self.limit.get(f["id"], MSD), f["max"])
            elif f["t"] == "MAX_STREAMS":
                self.max_streams[f["uni"]] = max(self.max_streams[f["uni"]], f["max"])

    def _create_errs(self, sid):
        """errors from creating/locating receive state for sid; None if fine"""
        uni = bool(sid & 2)
        if not self.peer_initiated(sid):
            if sid not in self.opened_by_e:
                return {SSTATE}
            return None
        if sid not in self.known and sid // 4 >= self.max_streams[uni]:
            return {SLIMIT}
        return None

    def judge(self, mv):
        """-> set of acceptable outcomes ('ok' or error codes), or None = not judged"""
        k = mv[0]
        sid = mv[1]
        uni = bool(sid & 2)
        if sid in self.unjudged:
            return None
        if k in ("STREAM", "RESET", "SDB"):
            if not self.peer_initiated(sid) and uni:
                return {SSTATE}          # E's send-only stream
        if k in ("MSD", "STOP"):
            if self.peer_initiated(sid) and uni:
                return {SSTATE}          # E's receive-only stream
        ce = self._create_errs(sid)
        if ce:
            return ce
        if k in ("MSD", "STOP", "SDB"):
            return {"ok"}
        lim = self.limit.get(sid, MSD)
        hi = self.highest.get(sid, 0)
        fixed = self.final.get(sid)
        errs = set()
        if k == "STREAM":
            _, _, off, ln, fin = mv
            end = off + ln
            if end > lim:
                errs.add(FLOW)
            if self.used + max(0, end - hi) > self.max_data:
                errs.add(FLOW)
            if fixed is not None and (end > fixed or (fin and end != fixed)):
                errs.add(FSIZE)
            if errs:
                return errs
            if fin and end < hi:
                return {"ok", FSIZE}     # RFC 9000 4.5 demands an error, the property does not
            return {"ok"}
        if k == "RESET":
            _, _, final = mv
            if final > lim:
                errs.add(FLOW)
            if self.used + max(0, final - hi) > self.max_data:
                errs.add(FLOW)
            if fixed is not None and final != fixed:
                errs.add(FSIZE)
            if errs:
                return errs
            if final < hi:
                return {"ok", FSIZE}
            return {"ok"}
        raise core.HarnessError("bad move %r" % (mv,))

    def accept(self, mv):
        k, sid = mv[0], mv[1]
        uni = bool(sid & 2)
        self.known.add(sid)
        if k == "STREAM":
            _, _, off, ln, fin = mv
            end = off + ln
            hi = self.highest.get(sid, 0)
            self.used += max(0, end - hi)
            self.highest[sid] = max(hi, end)
            if fin:
                self.final[sid] = end
            if self.recv.get(sid) != "reset":
                self.recv[sid] = self.recv.get(sid, frozenset()) | frozenset(range(off, end))
        elif k == "RESET":
            final = mv[2]
            hi = self.highest.get(sid, 0)
            self.used += max(0, final - hi)
            self.highest[sid] = max(hi, final)
            self.final[sid] = final
            self.recv[sid] = "reset"
        elif k == "STOP":
            self.stopped.add(sid)
        # a stream whose receive half is complete may be discarded by E once its send half is
        # finished; frames for discarded streams are ignored, which the property does not judge
        fin = self.final.get(sid)
        done = self.recv.get(sid) == "reset" or (
            fin is not None and self.recv.get(sid, frozenset()) >= frozenset(range(fin)))
        if done and (uni or sid in self.stopped):
            self.unjudged.add(sid)
        if k == "STOP" and done:
            self.unjudged.add(sid)

    def key(self):
        return (tuple(sorted(self.limit.items())), tuple(sorted(self.highest.items())),
                tuple(sorted(self.final.items())),
                tuple(sorted((k, v if v == "reset" else tuple(sorted(v))) for k, v in self.recv.items())),
                tuple(sorted(self.unjudged)), tuple(sorted(self.stopped)), self.max_data, self.used,
                tuple(sorted(self.max_streams.items())), tuple(sorted(self.opened_by_e)),
                tuple(sorted(self.known)))


# ----------------------------------------------------------------------- alphabet
def alphabet(role, level):
    """peer moves; level 'core' (small) or 'full'"""
    if role == "server":
        pb0, pb1, pb_beyond = 0, 8, 16          # stream indexes 0, 2 and 4 (limit 4)
        pu0, pu_beyond = 2, 18
        eb, eu = 1, 3
        pb_last = 12                             # index 3: the last one inside the initial limit
    else:
        pb0, pb1, pb_beyond = 1, 9, 17
        pu0, pu_beyond = 3, 19
        eb, eu = 0, 2
        pb_last = 13
    mv = []
    shapes_full = [(0, 1), (0, MSD), (0, MSD + 1), (MSD - 1, 1), (MSD, 1), (1, MSD - 1), (MSD, 0), (0, 0)]
    shapes_core = [(0, 1), (0, MSD), (MSD, 1), (MSD - 1, 1), (0, 0)]
    shapes = shapes_full if level == "full" else shapes_core
    main = [pb0, pb1, pu0] if level == "full" else [pb0, pb1]
    for sid in main:
        for off, ln in shapes:
            for fin in (False, True):
                mv.append(("STREAM", sid, off, ln, fin))
    for sid in (pb_beyond, pu_beyond, eb, eu):
        mv.append(("STREAM", sid, 0, 1, False))
        if level == "full":
            mv.append(("STREAM", sid, 0, 0, True))
    for sid in ([pb0, pb1, pu0, pb_beyond, eu] if level == "full" else [pb0, pu0]):
        for final in ((0, 1, MSD, MSD + 1) if level == "full" else (1, MSD + 1)):
            mv.append(("RESET", sid, final))
    if level == "full":
        mv.append(("STREAM", pb0, BIG - 1, 1, False))
        mv.append(("RESET", pb0, BIG))
        for sid in (pb0, pu0, eb, eu, pb_beyond):
            mv.append(("MSD", sid, 100))
        for sid in (pb0, eu, eb, pu_beyond):
            mv.append(("SDB", sid, 5))
        for sid in (pb0, pu0, eb):
            mv.append(("STOP", sid, 1))
    else:
        mv.append(("MSD", pu0, 100))
        mv.append(("SDB", eu, 5))
    for final in (MSD - 1, MSD):
        mv.append(("TWICE", ("RESET", pb0, final)))
    mv.append(("TWICE", ("RESET", pu0, MSD)))
    mv.append(("TWICE", ("STREAM", pb1, 0, MSD, True)))
    mv.append(("ACKALL",))
    mv.append(("TIMER",))
    mv.append(("EOPEN", eb))
    # the ACK that makes E declare its older packets (e.g. the one carrying MAX_STREAMS / MAX_DATA)
    # lost arrives in the same packet as a STREAM frame that is within every limit E advertised
    mv.append(("LOSS_STREAM", pb_last, 0, 1, False))
    mv.append(("LOSS_STREAM", pb0, 0, 1, False))
    return mv


def to_frames(mv):
    k = mv[0]
    if k in ("STREAM", "LOSS_STREAM"):
        _, sid, off, ln, fin = mv
        return [{"t": "STREAM", "id": sid, "off": off, "data": data(sid, off, ln), "fin": fin,
                 "force_off": off > 0}]
    if k == "RESET":
        return [{"t": "RESET_STREAM", "id": mv[1], "err": 3, "final": mv[2]}]
    if k == "MSD":
        return [{"t": "MAX_STREAM_DATA", "id": mv[1], "max": mv[2]}]
    if k == "SDB":
        return [{"t": "STREAM_DATA_BLOCKED", "id": mv[1], "max": mv[2]}]
    if k == "STOP":
        return [{"t": "STOP_SENDING", "id": mv[1], "err": mv[2]}]
    raise core.HarnessError(mv)


# ------------------------------------------------------------------------ world
def make_bot(role):
    side = "s" if role == "server" else "c"
    cfg = {side + "_max_data": MD, side + "_max_stream_data": MSD, side + "_max_streams": (NSTREAMS, NSTREAMS)}
    return peerbot.PeerBot(role, cfg=cfg)


def measure(bot, ref):
    """bounds on peer-driven state, measured on the live object (attribute reads)"""
    conn = bot.E.conn
    total = 0
    for st in conn._streams.values():
        n = len(st.receiver._buffer)
        total += n
        lim = ref.limit.get(st.stream_id, MSD)
        if n > lim:
            return ({"monitor": "bound.stream_buffer"},
                    "stream %d buffers %d bytes, advertised limit %d" % (st.stream_id, n, lim))
    if total > ref.max_data:
        return ({"monitor": "bound.connection_buffer"},
                "%d bytes buffered for reassembly, advertised MAX_DATA %d" % (total, ref.max_data))
    return None


def step(bot, ref, mv):
    """apply one move; returns (violation|None, closed, outcome)"""
    k = mv[0]
    if k == "ACKALL":
        r = bot.ack()
        if r is not None:
            ref.observe(r.frames())
        return None, bot.E.conn._state.name != "CONNECTED", "ack"
    if k == "TIMER":
        r = bot.timer()
        if r is not None:
            ref.observe(r.frames())
        return None, bot.E.conn._state.name != "CONNECTED", "timer"
    if k == "EOPEN":
        sid = mv[1]
        if sid in ref.opened_by_e:
            return None, False, "noop"
        r = bot.app("send_stream_data", lambda c: c.send_stream_data(sid, b"x"))
        ref.opened_by_e.add(sid)
        ref.known.add(sid)
        ref.observe(r.frames())
        return None, False, "eopen"
    if k == "LOSS_STREAM":
        # E sends a newer ack-eliciting packet (PING); one second later only that one is acknowledged,
        # so every older outstanding packet of E is declared lost by the time threshold
        bot.app("send_ping", lambda c: c.send_ping(77))
        pns = sorted(x.pn for x in bot.outstanding if x.epoch == "A")
        if len(pns) < 2:
            return None, False, "noop"
        bot.advance(1.0)
        bot.outstanding = [x for x in bot.outstanding if not (x.epoch == "A" and x.pn == pns[-1])]
        smv = ("STREAM",) + tuple(mv[1:])
        expect = ref.judge(smv)
        r = bot.send([{"t": "ACK", "ranges": [(pns[-1], pns[-1])], "delay": 0}] + to_frames(mv))
        mv = smv
        k = "STREAM"
    elif k == "TWICE":
        # the same frame twice in one packet (a retransmission that arrives together with the original):
        # judged as the frame once - repeating it uses no additional credit
        inner = tuple(mv[1])
        expect = ref.judge(inner)
        r = bot.send(to_frames(inner) + to_frames(inner))
        mv = inner
        k = inner[0]
    else:
        expect = ref.judge(mv)
        r = bot.send(to_frames(mv))
    ref.observe(r.frames())
    closes = [f for f in r.frames("CONNECTION_CLOSE")]
    closed = bool(closes) or bot.E.conn._state.name != "CONNECTED"
    code = closes[0]["err"] if closes else (None if not closed else "closed_silently")
    if expect is None:
        return None, closed, ("unjudged", code)
    if closed:
        if code not in expect:
            if expect == {"ok"}:
                return (({"monitor": "accused_compliant_peer", "code": code, "move": k},
                         "peer within the advertised limits sent %r but E closed with %s"
                         % (mv, NAMES.get(code, code))), True, ("bad", code))
            return (({"monitor": "wrong_error_code", "code": code, "move": k,
                      "expected": sorted(str(x) for x in expect)},
                     "%r: E closed with %s, reference expects one of %s"
                     % (mv, NAMES.get(code, code), [NAMES.get(x, x) for x in expect])), True, ("bad", code))
        return None, True, ("closed", code)
    if "ok" not in expect:
        return (({"monitor": "limit_not_enforced", "move": k, "expected": sorted(NAMES[x] for x in expect)},
                 "%r exceeds what E advertised (stream limit %s, MAX_DATA %d used %d, streams %s) but E did "
                 "not close; reference expects %s"
                 % (mv, ref.limit.get(mv[1], MSD), ref.max_data, ref.used, dict(ref.max_streams),
                    [NAMES[x] for x in expect])), False, ("bad", None))
    ref.accept(mv)
    v = measure(bot, ref)
    if v:
        return v, False, ("bad", "bound")
    return None, False, ("ok", k)


_CFG = {"role": "server", "level": "core"}


def rebuild(role, hist):
    bot = make_bot(role)
    ref = Ref(role == "server")
    for f in [f for r in bot.E.sent_packets for f in (r.frames or [])]:
        pass
    for mv in hist:
        v, closed, _ = step(bot, ref, tuple(mv))
        if v is not None or closed:
            raise core.HarnessError("history %r no longer replays cleanly (%r)" % (hist, v))
    return bot, ref


def expand_one(args):
    """one transition: (role, history, move) -> (key|None, violation|None, outcome)"""
    role, hist, mv = args
    bot, ref = rebuild(role, hist)
    try:
        v, closed, outcome = step(bot, ref, mv)
        if closed and v is None:
            bot.drive_to_end()
    except core.HarnessError:
        raise
    except Exception as e:  # noqa
        import traceback

        tb = traceback.extract_tb(e.__traceback__)
        inner = [fr for fr in tb if "/aioquic/" in fr.filename]
        if not inner:
            raise
        v = ({"monitor": "api_exception", "exc": type(e).__name__,
              "where": "%s:%s" % (inner[-1].filename.split("/aioquic/")[-1], inner[-1].name)},
             "%s: %s on move %r" % (type(e).__name__, e, mv))
        closed, outcome = True, ("exc", type(e).__name__)
    if v is not None or closed:
        return None, v, outcome
    k = (ref.key(), bot.E.conn._local_max_data.value, len(bot.outstanding) > 0)
    return k, None, outcome


class Res:
    pass


def run_bfs(ctx, role, level, depth, name):
    """level-synchronous BFS, one forked task per (state, move) because every transition
    needs the state rebuilt by replaying its history on a fresh endpoint"""
    alpha = alphabet(role, level)
    res = Res()
    res.states, res.transitions, res.max_depth = 1, 0, 0
    res.outcomes, res.violations, res.samples = set(), [], []
    seen = {("init",)}
    frontier = [[]]
    for d in range(depth):
        tasks = [(role, h, mv) for h in frontier for mv in alpha]
        results = core.pmap(expand_one, tasks, chunksize=4)
        nxt = []
        for (_, h, mv), (k, v, outcome) in zip(tasks, results):
            res.transitions += 1
            res.outcomes.add(outcome)
            if v is not None:
                res.violations.append((v[0], v[1], h + [mv]))
            elif k is not None and k not in seen:
                seen.add(k)
                nxt.append(h + [mv])
                if len(res.samples) < 3 and len(h) >= 1:
                    res.samples.append(h + [mv])
        if nxt:
            res.max_depth = d + 1
        res.states += len(nxt)
        frontier = nxt
        if not frontier:
            break
    res.closed = not frontier
    ctx.part(name, states=res.states, transitions=res.transitions, max_depth=res.max_depth,
             evaluations=res.transitions, distinct_nontrivial=len(res.outcomes), alphabet=len(alpha),
             closure=res.closed)
    if len(res.outcomes) < 5:
        raise core.HarnessError("%s: vacuous (%d outcomes)" % (name, len(res.outcomes)))
    for h in res.samples[:2]:
        ctx.sample({"part": name, "history": h})
    seen_sig = set()
    for sig, what, hist in res.violations:
        sig = dict(sig, role=role)
        k = core.stable_hash(sig)
        if k in seen_sig:
            continue
        seen_sig.add(k)
        ctx.violation(sig, what + " after history %r" % (hist[:-1],), {"role": role, "history": hist})
    return res


# ------------------------------------------------------------- repetition menus
def rep_case(args):
    role, name = args
    from aioquic.quic import connection as qc

    bot = make_bot(role)
    conn = bot.E.conn
    worst = 0
    viol = None
    n = 0
    pb0 = 0 if role == "server" else 1
    try:
        if name == "crypto_holes":
            # CRYPTO frames at growing offsets with a hole at 0
            for kq in range(1, 700):
                n += 1
                bot.send([{"t": "CRYPTO", "off": kq * 1000, "data": bytes(1000)}])
                size = sum(len(s.receiver._buffer) for s in conn._crypto_streams.values())
                worst = max(worst, size)
                if size > qc.MAX_PENDING_CRYPTO + 1000:
                    viol = ({"monitor": "bound.crypto"}, "crypto reassembly holds %d bytes > MAX_PENDING_CRYPTO" % size)
                    break
                if conn._state.name != "CONNECTED":
                    break
            else:
                viol = ({"monitor": "bound.crypto_never_closed"}, "700 kB of CRYPTO with a hole accepted")
        elif name == "path_challenges":
            for kq in range(200):
                n += 1
                bot.feed(bot.build([{"t": "PATH_CHALLENGE", "data": kq.to_bytes(8, "big")}]) , addr=("10.9.9.9", 7))
                for p in conn._network_paths:
                    worst = max(worst, len(p.remote_challenges))
                if worst > qc.MAX_REMOTE_CHALLENGES:
                    viol = ({"monitor": "bound.remote_challenges"}, "%d queued path challenges" % worst)
                    break
        elif name == "ncid_retire_prior_to":
            for kq in range(1, 400):
                n += 1
                bot.send([{"t": "NEW_CONNECTION_ID", "seq": kq, "rpt": kq, "cid": kq.to_bytes(8, "big"), "token": bytes(16)}])
                worst = max(worst, len(conn._retire_connection_ids))
                if len(conn._retire_connection_ids) > 4 * conn._local_active_connection_id_limit + 8:
                    viol = ({"monitor": "bound.retire_queue"}, "%d pending retirements" % len(conn._retire_connection_ids))
                    break
                if 1 + len(conn._peer_cid_available) > conn._local_active_connection_id_limit and conn._state.name == "CONNECTED":
                    viol = ({"monitor": "bound.peer_cids"}, "more peer CIDs kept than advertised")
                    break
                if conn._state.name != "CONNECTED":
                    break
        elif name == "ncid_below_rpt_burst":
            # one datagram: Retire Prior To jumps ahead first, then many NEW_CONNECTION_ID frames whose sequence
            # numbers are already below it (a reordered rotation flight): each must be retired at once, all of
            # it before the endpoint gets to transmit - the backlog of pending retirements is measured at its peak
            class PeakList(list):
                peak = 0

                def append(self, x):
                    list.append(self, x)
                    PeakList.peak = max(PeakList.peak, len(self))

            PeakList.peak = len(conn._retire_connection_ids)
            conn._retire_connection_ids = PeakList(conn._retire_connection_ids)
            frames = [{"t": "NEW_CONNECTION_ID", "seq": 70, "rpt": 70, "cid": (70).to_bytes(8, "big"), "token": bytes(16)}]
            for kq in range(69, 69 - 41, -1):
                frames.append({"t": "NEW_CONNECTION_ID", "seq": kq, "rpt": 0, "cid": kq.to_bytes(8, "big"), "token": bytes(16)})
            n += len(frames)
            bot.send(frames)
            worst = PeakList.peak
            if worst > 4 * conn._local_active_connection_id_limit + 8:
                viol = ({"monitor": "bound.retire_queue"},
                        "%d pending retirements at the peak while one datagram with %d NEW_CONNECTION_ID frames below "
                        "Retire Prior To was processed (connection %s)" % (worst, len(frames) - 1, conn._state.name))
        elif name == "ncid_no_ack":
            # retire-prior-to rising while the RETIRE frames are never acknowledged
            for kq in range(1, 200):
                n += 1
                bot.send([{"t": "NEW_CONNECTION_ID", "seq": kq, "rpt": kq, "cid": kq.to_bytes(8, "big"), "token": bytes(16)}])
                if kq % 3 == 0:
                    bot.timer()
                worst = max(worst, len(conn._retire_connection_ids))
                if worst > 4 * conn._local_active_connection_id_limit + 110:
                    viol = ({"monitor": "bound.retire_queue"}, "%d pending retirements" % worst)
                    break
                if conn._state.name != "CONNECTED":
                    break
        elif name == "local_challenges":
            for kq in range(60):
                n += 1
                bot.feed(bot.build([{"t": "PING"}]), addr=("10.9.%d.9" % (kq % 250), 1000 + kq))
                worst = max(worst, len(conn._local_challenges))
                if worst > qc.MAX_LOCAL_CHALLENGES:
                    viol = ({"monitor": "bound.local_challenges"}, "%d local challenges" % worst)
                    break
        elif name.startswith("ncid_dup_after_local_retire"):
            # the endpoint retires k peer CIDs itself (change_connection_id), the peer's
            # NEW_CONNECTION_ID frames for them are retransmitted (duplicates), and the compliant
            # peer then issues replacements: it never has more than 8 active IDs and must not be accused
            k = int(name[-1])
            issued = {}
            for r0 in bot.P.sent_packets:
                for f in r0.frames or []:
                    if f["t"] == "NEW_CONNECTION_ID":
                        issued[f["seq"]] = f
            for _ in range(k):
                n += 1
                bot.app("change_connection_id", lambda c: c.change_connection_id())
                bot.ack()
            for seq in range(1, k + 1):
                if seq in issued:
                    n += 1
                    bot.send([dict(issued[seq])])
            nxt = max(issued) + 1 if issued else 1
            for j in range(k):
                n += 1
                bot.send([{"t": "NEW_CONNECTION_ID", "seq": nxt + j, "rpt": 0,
                           "cid": bytes([0xA0 + j]) * 8, "token": bytes([j]) * 16}])
                worst = max(worst, 1 + len(conn._peer_cid_available))
                if conn._state.name != "CONNECTED":
                    ev = conn._close_event
                    viol = ({"monitor": "accused_compliant_peer", "move": "ncid_dup_after_local_retire",
                             "code": getattr(ev, "error_code", None)},
                            "peer retransmitted NEW_CONNECTION_ID for %d locally retired IDs and issued %d "
                            "replacements (never more than 8 active) but E closed: %r" % (k, k, ev))
                    break
        elif name == "never_finished_streams":
            ref = Ref(role == "server")
            sid = pb0
            for kq in range(300):
                n += 1
                uni = bool(sid & 2)
                if sid // 4 >= ref.max_streams[uni]:
                    break
                r = bot.send([{"t": "STREAM", "id": sid, "off": 1, "data": b"z", "fin": False, "force_off": True}])
                ref.observe(r.frames())
                if conn._state.name != "CONNECTED":
                    if r.frames("CONNECTION_CLOSE") and r.frames("CONNECTION_CLOSE")[0]["err"] == FLOW and ref.used + 2 > ref.max_data:
                        break
                    viol = ({"monitor": "accused_compliant_peer", "move": "never_finished"},
                            "E closed although stream %d is within the advertised stream count %d" % (sid, ref.max_streams[uni]))
                    break
                ref.used += 2
                total = sum(len(s.receiver._buffer) for s in conn._streams.values())
                worst = max(worst, total)
                if total > ref.max_data:
                    viol = ({"monitor": "bound.connection_buffer"}, "%d bytes buffered > MAX_DATA %d" % (total, ref.max_data))
                    break
                if ref.used + 2 > ref.max_data:
                    break
                sid += 4
        bot.drive_to_end()
    except core.HarnessError:
        raise
    except Exception as e:  # noqa
        import traceback

        tb = [fr for fr in traceback.extract_tb(e.__traceback__) if "/aioquic/" in fr.filename]
        if not tb:
            raise
        viol = ({"monitor": "api_exception", "exc": type(e).__name__,
                 "where": "%s:%s" % (tb[-1].filename.split("/aioquic/")[-1], tb[-1].name), "menu": name},
                "%s: %s during repetition menu %s" % (type(e).__name__, e, name))
    return (role, name, n, worst, conn._state.name, viol)


# ------------------------------------------------------------- connection-ID limit grid
CID_LIMIT_ERR = 9


def ncid_grid_cases():
    """(role, frames): every sequence of one to three NEW_CONNECTION_ID frames with fresh sequence numbers around the
    limit boundary.  The harness peer has issued IDs 0..7 during the handshake: the victim starts exactly full."""
    out = []
    alpha = [(sq, rpt) for sq in (8, 9, 10) for rpt in (0, 1, 2, 3, sq)]
    for role in ("server", "client"):
        for a in alpha:
            out.append((role, (a,)))
            for b in alpha:
                if b[0] == a[0]:
                    continue
                out.append((role, (a, b)))
                for c in alpha:
                    if c[0] not in (a[0], b[0]):
                        out.append((role, (a, b, c)))
    return out


def ncid_grid_chunk(cases):
    """Reference: RFC 9000 5.1.1/5.1.2/19.15 - active = issued and not retired by Retire Prior To; more than the
    advertised active_connection_id_limit AFTER adding and retiring is CONNECTION_ID_LIMIT_ERROR, anything else legal."""
    res = []
    for role, frames in cases:
        bot = make_bot(role)
        conn = bot.E.conn
        limit = conn._local_active_connection_id_limit
        # what the harness peer issued during the handshake, as the victim recorded it (self-check: exactly full)
        active = {conn._peer_cid.sequence_number} | {c.sequence_number for c in conn._peer_cid_available}
        if active != set(range(limit)):
            raise core.HarnessError("ncid_limit_grid expects a victim holding IDs 0..%d, it holds %r" % (limit - 1, sorted(active)))
        rpt_max = 0
        viol = None
        outcome = []
        for (sq, rpt) in frames:
            rpt_max = max(rpt_max, rpt)
            active = {a for a in active if a >= rpt_max}
            if sq >= rpt_max:
                active.add(sq)
            legal = len(active) <= limit
            r = bot.send([{"t": "NEW_CONNECTION_ID", "seq": sq, "rpt": rpt, "cid": (1000 + sq).to_bytes(8, "big"), "token": bytes([sq]) * 16}])
            closed = conn._state.name != "CONNECTED"
            cc = r.frames("CONNECTION_CLOSE")
            outcome.append((legal, closed, cc[0]["err"] if cc else None))
            if legal and closed:
                viol = ({"monitor": "accused_compliant_peer", "move": "ncid_limit_grid"},
                        "E closed (%s) on NEW_CONNECTION_ID seq %d retire-prior-to %d (frames so far %r, IDs 0..%d issued before): %d "
                        "active IDs remain, advertised limit %d" % (cc[0] if cc else conn._state.name, sq, rpt, frames, limit - 1,
                                                                   len(active), limit))
            elif not legal and (not closed or not cc or cc[0]["err"] != CID_LIMIT_ERR):
                viol = ({"monitor": "limit.connection_ids_not_enforced"},
                        "NEW_CONNECTION_ID seq %d retire-prior-to %d (frames so far %r, IDs 0..%d issued before) leaves %d active IDs, "
                        "limit %d: %s" % (sq, rpt, frames, limit - 1, len(active), limit,
                                          "accepted" if not closed else "closed with %r" % (cc[0] if cc else None)))
            if closed or viol:
                break
        if viol is None:
            try:
                bot.drive_to_end()
            except core.HarnessError:
                raise
            except Exception as e:  # noqa
                viol = ({"monitor": "api_exception", "exc": type(e).__name__, "menu": "ncid_limit_grid"}, "%s: %s" % (type(e).__name__, e))
        res.append(((role, frames), tuple(outcome), viol))
    return res


def run_ncid_grid(ctx):
    cases = ncid_grid_cases()
    chunks = [cases[i:i + 40] for i in range(0, len(cases), 40)]
    outs = set()
    n = 0
    for chunk in core.pmap(ncid_grid_chunk, chunks):
        for case, outcome, viol in chunk:
            n += 1
            outs.add(outcome)
            if viol:
                ctx.violation(dict(viol[0], role=case[0]), viol[1] + " [role %s]" % case[0],
                              {"part": "ncid_limit_grid", "case": case})
    if not any(o and o[-1][0] is False for o in outs) or not any(o and all(x[0] for x in o) for o in outs):
        raise core.HarnessError("ncid_limit_grid vacuous: %r" % sorted(outs, key=repr)[:6])
    ctx.part("ncid_limit_grid", evaluations=n, transitions=n, states=n, distinct_nontrivial=len(outs))


REP = ["ncid_below_rpt_burst", "ncid_dup_after_local_retire1", "ncid_dup_after_local_retire2", "ncid_dup_after_local_retire3", "crypto_holes", "path_challenges", "ncid_retire_prior_to", "ncid_no_ack", "local_challenges",
       "never_finished_streams"]


def run(ctx):
    quick = ctx.tier == "quick"
    if quick:
        run_bfs(ctx, "server", "full", 2, "server_full_d2")
        run_bfs(ctx, "server", "core", 3, "server_core_d3")
        run_bfs(ctx, "client", "core", 2, "client_core_d2")
    else:
        run_bfs(ctx, "server", "full", 3, "server_full_d3")
        run_bfs(ctx, "client", "full", 2, "client_full_d2")
        run_bfs(ctx, "server", "core", 4, "server_core_d4")
        run_bfs(ctx, "client", "core", 3, "client_core_d3")
    run_ncid_grid(ctx)
    reps = core.pmap(rep_case, [(r, n) for r in ("server", "client") for n in REP])
    for role, name, n, worst, state, viol in reps:
        ctx.part("rep_%s_%s" % (role, name), evaluations=n, transitions=n, states=1, worst=worst, final_state=state,
                 distinct_nontrivial=1)
        if viol:
            ctx.violation(dict(viol[0], role=role), viol[1], {"role": role, "menu": name})
    ctx.cov["rule"] = (
        "BFS with history replay over frames from a key-holding peer to a real endpoint advertising "
        "max_stream_data=8, max_data=16, 2 streams per kind: STREAM (offset,len) at limit-1/limit/limit+1 and "
        "2^62-1 with and without FIN on in-limit, beyond-limit and wrong-direction streams, RESET_STREAM finals, "
        "MAX_STREAM_DATA / STREAM_DATA_BLOCKED / STOP_SENDING on every stream kind, interleaved with acks, "
        "timers and E's own MAX_* updates (read from the wire); states merged on (reference model, E's "
        "limits); repetition menus up to 700 frames for CRYPTO holes, PATH_CHALLENGE, NEW_CONNECTION_ID "
        "retire-prior-to and never-finished streams with measured buffer sizes")
    ctx.cov["exhaustive"] = not ctx.caps_hit
    ctx.cov["bounds"] = {"msd": MSD, "max_data": MD, "streams": NSTREAMS}
    ctx.assumptions += [
        "stream-count limits are lowered by setting Limit.value before the transport parameters are serialised",
        "frames for streams E may already have discarded (receive half complete and send half finished) are not judged",
        "a FIN/RESET whose final size lies below data already received may be accepted or rejected (property wording)",
    ]


def replay(ctx, obj):
    rp = obj["replay"]
    if rp.get("part") == "ncid_limit_grid":
        role, frames = rp["case"]
        (_, outcome, viol), = ncid_grid_chunk([(role, tuple(tuple(f) for f in frames))])
        print("  IDs 0..7 issued, then %s -> (legal, closed, error) %s" % (frames, list(outcome)))
        if viol:
            print("VIOLATION property=C07 replay=(replayed): %s" % viol[1])
            return 1
        print("no violation on replay")
        return 0
    if "menu" in rp:
        r = rep_case((rp["role"], rp["menu"]))
        print(r)
        if r[5]:
            print("VIOLATION property=C07 replay=(replayed): %s" % r[5][1])
            return 1
        return 0
    hist = [tuple(m) for m in rp["history"]]
    bot = make_bot(rp["role"])
    ref = Ref(rp["role"] == "server")
    for mv in hist:
        try:
            v, closed, outcome = step(bot, ref, mv)
        except Exception as e:  # noqa
            print("  ", mv, "-> EXCEPTION", type(e).__name__, e)
            print("VIOLATION property=C07 replay=(replayed)")
            return 1
        print("  ", mv, "->", outcome, "closed" if closed else "")
        if v:
            print("VIOLATION property=C07 replay=(replayed): %s" % v[1])
            return 1
    print("no violation on replay")
    return 0
