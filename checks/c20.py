"""C20 - logging (qlog, secrets log) is observationally transparent.

Engine E3: paired executions.  The SAME inputs (script + network schedule = choice list;
hostile datagram; hostile HTTP/3 stream bytes; HTTP/3 API calls) are executed on fresh
objects in the settings {qlog off,on} x {secrets log off,on}; the normalised observation
of every setting must equal that of the setting with all logging disabled.

  part A  NetSim: C01's sharp scripts, default schedule + EVERY single-deviation schedule
          (drop / dup / delay / rebind per datagram, late timers), 4 settings.
  part B  PeerBot: C05's hostile frame / raw-datagram menus on C05's connection states,
          the settings run in lock-step on fresh endpoints (chained until closed).
  part C  HTTP/3: C16's hostile stream-byte menu through a real H3Connection
          (frame_parsed path) and a menu of API calls with hostile header bytes that is
          carried end-to-end to the peer's H3Connection (frame_created + frame_parsed).

Compared: per API call the exception-or-not outcome, sizes / destination / virtual send
time of the emitted datagrams, every packet's decrypted frames (independent refquic; in
runs without a secrets log the traffic secrets are READ from conn._cryptos), the popped
events, get_timer(); at the end a projection of the connection, recovery and stream state.
Random fields (CIDs, reset tokens, path challenge data, CRYPTO payload, tokens) are
compared by length / by first-appearance index.
With qlog on: json.dumps(QuicLogger.to_dict()) succeeds; #packet_sent records == packets
the wire observer saw leave the endpoint; #packet_received records == packets the endpoint
took into frame processing (calls of _payload_received, counted by a harness-side wrapper)
+ accepted Retry / Version Negotiation packets.
"""
import json
import logging
import resource
import signal
import time
import traceback
import zlib

from vlib import core, explore, netsim, peerbot, refquic  # noqa: F401

LEVEL = "exploration"
logging.getLogger("quic").setLevel(logging.CRITICAL)  # connection errors are observed as events

from checks import c01, c05, c16  # noqa: E402

from aioquic import tls  # noqa: E402
from aioquic.h3.connection import H3Connection  # noqa: E402
from aioquic.quic import events as qev  # noqa: E402
from aioquic.quic.connection import QuicConnectionState  # noqa: E402

class RunTimeout(Exception):
    """one execution used more than RUN_SECONDS of user-mode CPU time (normal executions
    take ~10 ms): a loop that does not terminate in this setting.  CPU time, not wall time,
    so that machine load cannot fire it."""


RUN_SECONDS = 8.0


class deadline:
    """with deadline(): ... raises RunTimeout inside the block after RUN_SECONDS"""

    def __init__(self, seconds=None):
        self.seconds = seconds or RUN_SECONDS

    def _fire(self, signum, frame):
        raise RunTimeout("execution still running after %.0f s of CPU time" % self.seconds)

    def __enter__(self):
        self.old = signal.signal(signal.SIGVTALRM, self._fire)
        signal.setitimer(signal.ITIMER_VIRTUAL, self.seconds)

    def __exit__(self, *a):
        signal.setitimer(signal.ITIMER_VIRTUAL, 0)
        signal.signal(signal.SIGVTALRM, self.old)
        return False


# (qlog, secrets); the first one is the reference "logging disabled"
SETTINGS = [(False, False), (False, True), (True, False), (True, True)]


def sname(s):
    return "qlog=%s,secrets=%s" % ("on" if s[0] else "off", "on" if s[1] else "off")


# ----------------------------------------------------------------- harness seams
class SecretReader:
    """Stands in for the key-log StringIO in runs WITHOUT a secrets log: the wire observer
    (and PeerBot) ask it for NSS lines; it reads the send secrets from the connection
    (reading does not perturb).  The first secret seen per label is the phase-0 one."""

    def __init__(self, ep):
        self.ep = ep
        self.seen = {}

    def poll(self):
        conn = self.ep.conn
        if conn is None:
            return
        client = conn._is_client
        mine, peer = ("CLIENT", "SERVER") if client else ("SERVER", "CLIENT")
        for epoch, suffix in ((tls.Epoch.HANDSHAKE, "_HANDSHAKE_TRAFFIC_SECRET"),
                              (tls.Epoch.ONE_RTT, "_TRAFFIC_SECRET_0")):
            pair = conn._cryptos.get(epoch)
            if pair is None:
                continue
            # like the real key log, an endpoint knows both directions
            for ctx, role in ((pair.send, mine), (pair.recv, peer)):
                label = role + suffix
                if label not in self.seen and ctx.secret is not None:
                    self.seen[label] = bytes(ctx.secret)
        pair = conn._cryptos.get(tls.Epoch.ZERO_RTT)
        if pair is not None and "CLIENT_EARLY_TRAFFIC_SECRET" not in self.seen:
            ctx = pair.send if client else pair.recv
            if ctx.secret is not None:
                self.seen["CLIENT_EARLY_TRAFFIC_SECRET"] = bytes(ctx.secret)

    def getvalue(self):
        self.poll()
        return "".join("%s 00 %s\n" % (k, v.hex()) for k, v in self.seen.items())


_orig_mk_logs = netsim.NetSim._mk_logs


def _mk_logs(self, ep, cfg):
    _orig_mk_logs(self, ep, cfg)
    if not self.cfg["secrets"]:
        ep.keylog = SecretReader(ep)  # NOT handed to the configuration


netsim.NetSim._mk_logs = _mk_logs


class OutOfContract(Exception):
    """A call into the C helpers outside their memory-safety contract (C04's defects:
    unchecked offsets/lengths in HeaderProtection / AEAD).  Executing it would corrupt the
    heap of the checking process, so the harness stops the call; the input is counted as
    'out of C contract' in every setting and is C04's business, not C20's."""


import aioquic.quic.crypto as _qc  # noqa: E402

_RealHP, _RealAEAD = _qc.HeaderProtection, _qc.AEAD
OOC = [0]


class GuardHP:
    def __init__(self, cipher_name, key):
        self._hp = _RealHP(cipher_name, key)

    def apply(self, plain_header, protected_payload):
        hl, pl = len(plain_header), len(protected_payload)
        pn_len = ((plain_header[0] & 3) + 1) if hl else 4
        if hl < 1 + pn_len or pl < 4 - pn_len + 16 or hl + pl > 1500:
            OOC[0] += 1
            raise OutOfContract("HeaderProtection.apply(header %d, payload %d)" % (hl, pl))
        return self._hp.apply(plain_header, protected_payload)

    def remove(self, packet, encrypted_offset):
        if encrypted_offset < 0 or encrypted_offset > 1496 or encrypted_offset + 20 > len(packet):
            OOC[0] += 1
            raise OutOfContract("HeaderProtection.remove(packet %d, offset %d)" % (len(packet), encrypted_offset))
        return self._hp.remove(packet, encrypted_offset)


class GuardAEAD:
    def __init__(self, cipher_name, key, iv):
        self._a = _RealAEAD(cipher_name, key, iv)

    def encrypt(self, data, associated_data, packet_number):
        if len(data) > 1500 - 16:
            OOC[0] += 1
            raise OutOfContract("AEAD.encrypt(%d bytes)" % len(data))
        return self._a.encrypt(data, associated_data, packet_number)

    def decrypt(self, data, associated_data, packet_number):
        return self._a.decrypt(data, associated_data, packet_number)  # checks its length itself


_qc.HeaderProtection = GuardHP
_qc.AEAD = GuardAEAD


class Counters:
    __slots__ = ("payload", "retry", "vn")

    def __init__(self):
        self.payload = self.retry = self.vn = 0


def install_counters(conn):
    """Count the packets the connection takes into frame processing, and accepted
    Retry / VN packets, independently of the logger."""
    if getattr(conn, "_v_counters", None) is not None:
        return
    cnt = conn._v_counters = Counters()
    o_payload = conn._payload_received
    o_retry = conn._receive_retry_packet
    o_vn = conn._receive_version_negotiation_packet

    def payload(*a, **kw):
        cnt.payload += 1
        return o_payload(*a, **kw)

    def retry(*a, **kw):
        before = conn._retry_count
        try:
            return o_retry(*a, **kw)
        finally:
            if conn._retry_count != before:
                cnt.retry += 1

    def vn(*a, **kw):
        if (conn._is_client and conn._state == QuicConnectionState.FIRSTFLIGHT
                and not conn._version_negotiated_incompatible):
            cnt.vn += 1
        return o_vn(*a, **kw)

    conn._payload_received = payload
    conn._receive_retry_packet = retry
    conn._receive_version_negotiation_packet = vn


# --------------------------------------------------------------- normalisation
class Names:
    """random byte strings -> index of first appearance"""

    def __init__(self):
        self.d = {}

    def __call__(self, b):
        if b is None:
            return None
        b = bytes(b)
        if b not in self.d:
            self.d[b] = len(self.d)
        return "id%d/%d" % (self.d[b], len(b))


def crc(b):
    return zlib.crc32(bytes(b))


def nframe(f, names):
    t = f["t"]
    if t == "CRYPTO":
        return (t, f["off"], len(f["data"]))
    if t == "STREAM":
        return (t, f["id"], f["off"], len(f["data"]), crc(f["data"]), f["fin"])
    if t == "NEW_CONNECTION_ID":
        return (t, f["seq"], f["rpt"], names(f["cid"]), len(f["token"]))
    if t in ("PATH_CHALLENGE", "PATH_RESPONSE"):
        return (t, names(f["data"]))
    if t == "NEW_TOKEN":
        return (t, len(f["token"]))
    if t == "ACK":
        return (t, f["largest"], f["delay"], tuple(tuple(r) for r in f["ranges"]),
                tuple(f["ecn"]) if f.get("ecn") else None)
    if t == "DATAGRAM":
        return (t, len(f["data"]), crc(f["data"]))
    out = [t]
    for k in sorted(f):
        if k == "t":
            continue
        v = f[k]
        if isinstance(v, (bytes, bytearray)):
            v = (len(v), crc(v))
        elif isinstance(v, list):
            v = tuple(v)
        out.append((k, v))
    return tuple(out)


def npacket(r, names):
    return (r.type, r.pn, r.size, bool(r.opened), names(r.dcid), names(r.scid),
            None if r.token is None else len(r.token),
            None if r.frames is None else tuple(nframe(f, names) for f in r.frames), r.note)


def nevent(ev, names):
    out = [type(ev).__name__]
    for k in sorted(vars(ev)):
        v = getattr(ev, k)
        if k == "connection_id" or k == "stateless_reset_token":
            v = names(v)
        elif isinstance(v, (bytes, bytearray)):
            v = (len(v), crc(v))
        elif hasattr(v, "name") and hasattr(v, "value"):
            v = v.name
        elif isinstance(v, (list, dict, set)):
            v = repr(v)
        out.append((k, v))
    return tuple(out)


def rel(t, t0):
    return None if t is None else t - t0


def final_state(conn, t0, names):
    """Projection of the final connection / recovery / stream state."""
    if conn is None:
        return None
    g = getattr
    loss = conn._loss
    spaces = []
    for sp in loss.spaces:
        spaces.append((
            len(sp.sent_packets), tuple(sorted(sp.sent_packets)),
            tuple((r.start, r.stop) for r in sp.ack_queue), g(sp, "ack_queue_floor", None),
            rel(sp.ack_at, t0), sp.expected_packet_number, sp.largest_received_packet,
            sp.largest_acked_packet, sp.ack_eliciting_in_flight, rel(sp.loss_time, t0), sp.discarded,
        ))
    streams = []
    for sid in sorted(conn._streams):
        st = conn._streams[sid]
        s, r = st.sender, st.receiver
        streams.append((sid, s.highest_offset, s.is_finished, s.buffer_is_empty, s.reset_pending,
                        g(s, "_buffer_start", None), g(s, "_buffer_stop", None),
                        r.highest_offset, r.is_finished, g(r, "_buffer_start", None),
                        g(r, "_final_size", None), st.max_stream_data_local,
                        st.max_stream_data_local_sent, st.max_stream_data_remote, st.is_blocked))
    ce = conn._close_event
    cc = loss._cc
    rtt = g(loss, "_rtt_smoothed", None), g(loss, "_rtt_variance", None), g(loss, "_rtt_min", None), \
        g(loss, "_rtt_latest", None), g(loss, "_rtt_initialized", None)
    return (
        conn._state.name, conn._handshake_complete, conn._handshake_confirmed, conn._handshake_done_pending,
        conn._close_pending, None if ce is None else (ce.error_code, ce.frame_type, ce.reason_phrase),
        rel(conn._close_at, t0), conn._packet_number, conn._version, g(conn, "_spin_bit", None),
        g(conn, "_key_phase", None) if hasattr(conn, "_key_phase") else
        (conn._cryptos[tls.Epoch.ONE_RTT].key_phase if tls.Epoch.ONE_RTT in conn._cryptos else None),
        conn._local_max_data.value, conn._local_max_data.sent, conn._local_max_data.used,
        conn._remote_max_data, conn._remote_max_data_used,
        conn._local_max_streams_bidi.value, conn._local_max_streams_uni.value,
        conn._remote_max_streams_bidi, conn._remote_max_streams_uni,
        tuple((c.sequence_number, c.was_sent, names(c.cid)) for c in conn._host_cids),
        conn._peer_cid.sequence_number, names(conn._peer_cid.cid),
        tuple(c.sequence_number for c in conn._peer_cid_available),
        tuple(conn._retire_connection_ids), tuple(sorted(g(conn, "_streams_finished", ()))),
        len(conn._ping_pending), len(g(conn, "_datagrams_pending", ())),
        tuple((p.addr, p.bytes_received, p.bytes_sent, p.is_validated, p.local_challenge_sent)
              for p in conn._network_paths),
        loss.bytes_in_flight, g(cc, "congestion_window", None), g(cc, "ssthresh", None), rtt,
        loss._pto_count, rel(g(conn, "_loss_at", None), t0), rel(g(conn, "_pacing_at", None), t0),
        tuple(spaces), tuple(streams), rel(conn.get_timer(), t0),
    )


def first_diff(a, b, path=""):
    """human readable location of the first difference of two nested tuples"""
    if type(a) is not type(b) or not isinstance(a, (tuple, list)):
        return "%s: %r != %r" % (path or ".", _short(a), _short(b))
    if len(a) != len(b):
        for i, (x, y) in enumerate(zip(a, b)):
            if x != y:
                return first_diff(x, y, "%s[%d]" % (path, i))
        return "%s: length %d != %d (extra %s)" % (path or ".", len(a), len(b),
                                                    _short((a[len(b):] or b[len(a):])[0]))
    for i, (x, y) in enumerate(zip(a, b)):
        if x != y:
            return first_diff(x, y, "%s[%d]" % (path, i))
    return "%s: equal" % path


def _short(x):
    s = repr(x)
    return s if len(s) < 160 else s[:157] + "..."


def classify(exc):
    entry = inner = None
    for fr in traceback.extract_tb(exc.__traceback__):
        if "/aioquic/" in fr.filename:
            if entry is None:
                entry = fr.name
            inner = "%s:%s" % (fr.filename.split("/aioquic/")[-1], fr.name)
    return entry, inner


# ------------------------------------------------------------------ qlog checks
def check_qlog(w, viol, ctxinfo):
    """json-serialisable; one packet record per packet sent / received."""
    n = 0
    for name in ("c", "s"):
        ep = w.ep[name]
        if ep.qlogger is None or ep.conn is None:
            continue
        n += 1
        try:
            doc = ep.qlogger.to_dict()
            json.dumps(doc)
        except Exception as e:  # noqa
            viol.append(({"monitor": "qlog.not_serialisable", "exc": type(e).__name__,
                          "where": classify(e)[1]},
                         "json.dumps(QuicLogger.to_dict()) failed for endpoint %s: %s: %s %s"
                         % (name, type(e).__name__, e, ctxinfo)))
            continue
        sent = recv = 0
        for tr in doc["traces"]:
            for ev in tr["events"]:
                if ev["name"] == "transport:packet_sent":
                    sent += 1
                elif ev["name"] == "transport:packet_received":
                    recv += 1
        on_wire = len(ep.sent_packets)
        if sent != on_wire:
            viol.append(({"monitor": "qlog.packet_sent_count", "role": "client" if name == "c" else "server",
                          "sign": "fewer" if sent < on_wire else "more"},
                         "endpoint %s: %d packet_sent records but the wire observer saw %d packets leave %s"
                         % (name, sent, on_wire, ctxinfo)))
        cnt = getattr(ep.conn, "_v_counters", None)
        if cnt is not None:
            exp = cnt.payload + cnt.retry + cnt.vn
            if recv != exp:
                viol.append(({"monitor": "qlog.packet_received_count",
                              "role": "client" if name == "c" else "server",
                              "sign": "fewer" if recv < exp else "more"},
                             "endpoint %s: %d packet_received records but %d packets were taken into "
                             "processing (%d payloads, %d Retry, %d VN) %s"
                             % (name, recv, exp, cnt.payload, cnt.retry, cnt.vn, ctxinfo)))
    return n


# =========================================================================== A
class Recorder(netsim.Monitor):
    def __init__(self):
        self.steps = []
        self.names = Names()
        self.exc = None

    def before_api(self, w, ep, name):
        if ep.conn is not None:
            install_counters(ep.conn)
        for e in w.ep.values():
            if isinstance(e.keylog, SecretReader):
                e.keylog.poll()

    def after_pump(self, w, ep, cause, sent, new_events, timer):
        for e in w.ep.values():
            if isinstance(e.keylog, SecretReader):
                e.keylog.poll()
        nm = self.names
        self.steps.append((
            ep.name, cause, w.now - w.t0,
            tuple((len(d.data), addr, d.kind, tuple(npacket(r, nm) for r in d.recs)) for d, addr in sent),
            tuple(nevent(ev, nm) for ev in new_events),
            rel(timer, w.t0),
        ))

    def on_exception(self, w, ep, name, exc):
        self.steps.append((ep.name, name, w.now - w.t0, "EXC", type(exc).__name__))


def run_setting_a(scenario, prefix, setting, trace=False):
    """-> dict(obs, exc, points, viol, ...) for one schedule in one setting."""
    cfg, script, _mon, kwargs, until = c01.factory(scenario)
    cfg = dict(cfg)
    cfg["qlog"], cfg["secrets"] = setting
    if cfg.get("tickets") == "obtain":
        # resumption: the first connection (logging off, default schedule) only provides the session
        # ticket; the connection under test resumes it and writes early data before its first transmit
        cfg["tickets"] = netsim.obtain_tickets({k: v for k, v in cfg.items() if k in ("version", "chain")})
    rec = Recorder()
    ch = explore.Chooser(prefix)
    w = netsim.NetSim(cfg, script, ch, monitors=[rec], trace=trace, **kwargs)
    out = {"exc": None, "diverged": None, "viol": []}
    try:
        with deadline():
            out["outcome"] = w.run(until)
    except RunTimeout as e:
        out["outcome"] = "timeout"
        out["exc"] = ("RunTimeout", None, "nontermination", str(e))
    except core.HarnessError as e:
        if "prefix replay diverged" not in str(e):
            raise
        out["outcome"] = "diverged"
        out["diverged"] = str(e)
    except Exception as e:  # noqa - escaped the public API
        entry, inner = classify(e)
        if inner is None:
            raise
        out["outcome"] = "exception"
        out["exc"] = (type(e).__name__, entry, inner, str(e)[:120])
    t0 = w.t0
    fin = tuple(final_state(w.ep[n].conn, t0, rec.names) for n in ("c", "s"))
    unopened = len(w.obs.unopened)
    out["obs"] = (tuple(rec.steps), fin,
                  (out["outcome"], out["exc"][:3] if out["exc"] else None, w.nsteps,
                   tuple(n for n, _ in ch.ex.points), unopened))
    out["points"] = list(ch.ex.points)
    out["choices"] = list(ch.ex.choices)
    out["consumed"] = len(ch.ex.choices) >= len(prefix)
    out["nsteps"] = w.nsteps
    out["packets"] = sum(len(w.ep[n].sent_packets) for n in ("c", "s"))
    out["unopened"] = unopened
    out["qlogs"] = 0
    if setting[0]:
        out["qlogs"] = check_qlog(w, out["viol"], "")
    if trace:
        out["trace"] = [repr(s) for s in w.steps]
    return out


FIELD_NAMES = {0: "api_steps", 1: "final_state", 2: "run_outcome"}


def compare_a(ref, other, setting):
    """-> list of (sig, what)"""
    viol = []
    if other["exc"] is not None and ref["exc"] is None:
        viol.append(({"monitor": "logging_only_exception", "exc": other["exc"][0], "where": other["exc"][2],
                      "entry": other["exc"][1], "setting": _skind(setting)},
                     "%s raised from %s (API %s) only with %s: %s"
                     % (other["exc"][0], other["exc"][2], other["exc"][1], sname(setting), other["exc"][3])))
        return viol
    if ref["exc"] is not None and ref["exc"][0] == "RunTimeout" and (
            other["exc"] is None or other["exc"][0] != "RunTimeout"):
        viol.append(({"monitor": "terminates_only_with_logging", "setting": _skind(setting)},
                     "the run without logging does not terminate (%s) but terminates with %s (outcome %s)"
                     % (ref["exc"][3], sname(setting), other["outcome"])))
        return viol
    if ref["obs"] == other["obs"]:
        return viol
    if ref["outcome"] == "timeout" and other["outcome"] == "timeout":
        return viol  # neither terminates; how far each got within the deadline is wall-clock noise
    for i in range(3):
        if ref["obs"][i] != other["obs"][i]:
            where = first_diff(ref["obs"][i], other["obs"][i], FIELD_NAMES[i])
            what = "behaviour differs with %s: %s" % (sname(setting), where)
            if i == 0:
                k = 0
                a, b = ref["obs"][0], other["obs"][0]
                while k < len(a) and k < len(b) and a[k] == b[k]:
                    k += 1
                step = (a[k] if k < len(a) else b[k]) if (k < len(a) or k < len(b)) else None
                field = "length"
                if k < len(a) and k < len(b):
                    for j, fname in enumerate(("endpoint", "api", "time", "datagrams", "events", "timer")):
                        if a[k][j] != b[k][j]:
                            field = fname
                            break
                what += " (API step %d: %s %s)" % (k, step[0] if step else "?", step[1] if step else "?")
                sig = {"monitor": "behaviour_differs", "field": field, "api": step[1] if step else None,
                       "setting": _skind(setting)}
            else:
                sig = {"monitor": "behaviour_differs", "field": FIELD_NAMES[i], "setting": _skind(setting)}
            viol.append((sig, what))
            break
    return viol


def _skind(setting):
    # which logging facility differs from the reference
    return {(False, True): "secrets", (True, False): "qlog", (True, True): "qlog+secrets"}[tuple(setting)]


def schedules_a(scenario):
    """default schedule + every single-deviation schedule (from the reference setting)"""
    r = run_setting_a(scenario, [], SETTINGS[0])
    out = [[]]
    if r["outcome"] == "timeout":
        return out  # reported by task_a on the default schedule; do not multiply the waiting
    for i, (n, costs) in enumerate(r["points"]):
        for alt in range(1, n):
            if costs[alt] is not None and costs[alt] <= 1:
                out.append(r["choices"][:i] + [alt])
    return out


def sched_job(scenario):
    return schedules_a(scenario)


def task_a(item):
    sid, scenario, prefixes = item
    if prefixes is None:
        prefixes = schedules_a(scenario)
    res = {"schedules": 0, "runs": 0, "steps": 0, "packets": 0, "qlogs": 0, "viol": [], "outcomes": set(),
           "unopened": 0, "exceptions_both": 0}
    def run_confirmed(prefix, setting):
        r = run_setting_a(scenario, prefix, setting)
        if r["outcome"] == "timeout":
            r = run_setting_a(scenario, prefix, setting)  # must be reproducible to count
        return r

    for prefix in prefixes:
        ref = run_confirmed(prefix, SETTINGS[0])
        if ref["diverged"] or (not ref["consumed"] and ref["outcome"] != "timeout"):
            raise core.HarnessError("reference run of %s %r did not follow its own schedule (outcome %s, %d "
                                    "choice points, diverged=%r, exc=%r)"
                                    % (sid, prefix, ref["outcome"], len(ref["choices"]), ref["diverged"], ref["exc"]))
        res["schedules"] += 1
        res["runs"] += 1
        res["steps"] += len(ref["obs"][0])
        res["packets"] += ref["packets"]
        res["unopened"] += ref["unopened"]
        res["outcomes"].add(core.stable_hash(ref["obs"][2]))
        if ref["exc"] is not None:
            res["exceptions_both"] += 1
        stop = ref["outcome"] == "timeout"
        for setting in SETTINGS[1:]:
            o = run_confirmed(prefix, setting)
            res["runs"] += 1
            res["qlogs"] += o["qlogs"]
            vs = compare_a(ref, o, setting) + o["viol"]
            for sig, what in vs:
                sig = dict(sig, part="netsim")
                res["viol"].append((sig, what, sid, prefix, list(setting)))
                if sig["monitor"] in ("terminates_only_with_logging",) or o["outcome"] == "timeout":
                    stop = True
        if stop:
            break  # every further schedule of this chunk would wait for the deadline again
    res["outcomes"] = sorted(res["outcomes"])
    return res


# =========================================================================== B
def make_bot(state, setting, rec):
    role, kw, epochs = c05.STATES[state]
    kw = dict(kw)
    settle = kw.pop("settle", False)
    close = kw.pop("close", False)
    cfg = dict(kw.get("cfg") or {})
    cfg["qlog"], cfg["secrets"] = setting
    kw["cfg"] = netsim.resolve_tickets(cfg)   # (a resuming state obtains its own tickets per endpoint)
    if settle:
        def pred(w):
            return (w.ep["c"].hs_done and w.ep["s"].hs_done and w.ep["c"].op_i == len(w.ep["c"].ops)
                    and w.ep["s"].op_i == len(w.ep["s"].ops) and w.nsteps > 12)
        kw["cut"] = pred
    bot = peerbot.PeerBot(role, monitors=[rec], **kw)
    if close:
        bot.app("close", lambda c: c.close(error_code=0, reason_phrase="x"))
    return bot


# packet-level inputs C05's menus do not contain: reserved header bits, wrong key phase,
# duplicate and very old packet numbers (the packet_dropped / early-return paths of the log)
SPECIALS = [
    ("PING_reserved1", {"reserved": 1}),
    ("PING_reserved2", {"reserved": 2}),
    ("PING_reserved3", {"reserved": 3}),
    ("PING_key_phase_flipped", {"key_phase": 1}),
    ("PING_fresh_pn", {}),
    ("PING_duplicate_pn", {"dup": True}),
    ("PING_pn_zero_again", {"pn": 0}),
    ("PING_pn_len4", {"pn_len": 4}),
    ("PING_pn_len1", {"pn_len": 1}),
]

_PLAN = {}


def plan_b(state, tier):
    """deterministic list of input descriptors: ('raw', i, label) / ('frames', epoch, i, label)"""
    k = (state, tier)
    if k not in _PLAN:
        bot = make_bot(state, SETTINGS[1], Recorder())
        out = [("raw", i, label) for i, (label, _d) in enumerate(c05.raw_menu(bot, tier))]
        fm = c05.frame_menu(tier)
        for ep in c05.STATES[state][2]:
            if bot.keys(ep) is None:
                continue
            for i, (label, _p) in enumerate(fm):
                out.append(("frames", ep, i, label))
        for ep in c05.STATES[state][2]:
            if bot.keys(ep) is None:
                continue
            for i, (label, _kw) in enumerate(SPECIALS):
                out.append(("special", ep, i, "%s@%s" % (label, ep)))
        _PLAN[k] = out
    return _PLAN[k]


class Lane:
    """one setting's endpoint in the lock-step comparison"""

    def __init__(self, state, setting, tier):
        self.state, self.setting, self.tier = state, setting, tier
        self.rec = Recorder()
        self.bot = make_bot(state, setting, self.rec)
        self.raw = None
        self.mark = len(self.rec.steps)

    def apply(self, desc, fm):
        bot = self.bot
        self.mark = len(self.rec.steps)
        try:
            with deadline():
                return self._apply(desc, fm)
        except RunTimeout as e:
            return ("EXC", "RunTimeout", None, "nontermination", str(e))

    def _apply(self, desc, fm):
        bot = self.bot
        try:
            if desc[0] == "pnping":
                # a PING under an explicit packet number (the peer skips numbers / repeats old ones)
                bot.feed(bot.build(None, epoch=desc[1], payload=b"\x01", pn=desc[2], pn_len=4))
            elif desc[0] == "timer":
                bot.timer()
            elif desc[0] == "raw":
                if self.raw is None:
                    self.raw = c05.raw_menu(bot, self.tier)
                label, data = self.raw[desc[1]]
                if label != desc[2]:
                    return ("MENU", label)
                bot.feed(data)
            else:
                epoch = desc[1]
                if bot.keys(epoch) is None:
                    return ("NOKEYS", epoch)
                pad = 1200 if epoch == "initial" and bot.p_name == "c" else None
                if desc[0] == "special":
                    kw = dict(SPECIALS[desc[2]][1])
                    if kw.pop("dup", False):
                        kw["pn"] = bot.next_pn - 1 if bot.next_pn > 0 else 0
                    if epoch != "1rtt":
                        kw.pop("key_phase", None)
                    bot.feed(bot.build(None, epoch=epoch, payload=b"\x01", **kw), pad_to=pad)
                else:
                    bot.feed(bot.build(None, epoch=epoch, payload=fm[desc[2]][1]), pad_to=pad)
            E = bot.E
            n = 0
            if E.conn._state.name in ("CLOSING", "DRAINING", "TERMINATED") or E.terminated is not None:
                while E.terminated is None and n < 8 and E.conn.get_timer() is not None:
                    bot.timer()
                    n += 1
        except core.HarnessError:
            raise
        except Exception as e:  # noqa
            entry, inner = classify(e)
            if inner is None:
                raise
            return ("EXC", type(e).__name__, entry, inner, str(e)[:120])
        E = bot.E
        t0 = bot.w.t0
        return ("OK", tuple(self.rec.steps[self.mark:]), E.conn._state.name,
                None if E.terminated is None else (E.terminated.error_code, E.terminated.frame_type,
                                                   E.terminated.reason_phrase),
                rel(E.conn.get_timer(), t0))

    def closed(self):
        E = self.bot.E
        return E.terminated is not None or E.conn._state.name in ("CLOSING", "DRAINING", "TERMINATED")

    def final(self):
        w = self.bot.w
        return final_state(self.bot.E.conn, w.t0, self.rec.names)


def input_class(label):
    lab = label.split("@")[0]
    if lab.startswith("raw:long"):
        return lab.split("_t")[0].split("_v")[0]
    if lab.startswith("raw:fb"):
        return "raw:first_byte"
    return lab.split("_trunc")[0].split("_x2")[0]


def task_b(item):
    state, tier, lo, hi, settings = item
    settings = [tuple(s) for s in settings]
    descs = plan_b(state, tier)[lo:hi]
    fm = c05.frame_menu(tier)
    res = {"inputs": 0, "endpoints": 0, "viol": [], "classes": {}, "qlogs": 0, "exc_both": 0, "chains": 0,
           "out_of_c_contract": 0, "lane_inputs": 0}
    lanes = None
    chain = []

    def finish(lanes):
        # end-of-chain: final states equal, qlog documents sound
        ref = lanes[0].final()
        for ln in lanes[1:]:
            f = ln.final()
            if f != ref:
                res["viol"].append(({"monitor": "behaviour_differs", "field": "final_state", "part": "peerbot",
                                     "setting": _skind(ln.setting)},
                                    "final state of the endpoint differs with %s after %d inputs in state %s: %s"
                                    % (sname(ln.setting), len(chain), state, first_diff(ref, f, "final_state")),
                                    state, list(chain), list(ln.setting)))
        for ln in lanes:
            if ln.setting[0]:
                v = []
                res["qlogs"] += check_qlog(ln.bot.w, v, "(state %s, after inputs %s)"
                                           % (state, [d[-1] for d in chain[-3:]]))
                for sig, what in v:
                    res["viol"].append((dict(sig, part="peerbot"), what, state, list(chain), list(ln.setting)))

    for desc in descs:
        if lanes is None:
            lanes = [Lane(state, s, tier) for s in settings]
            res["endpoints"] += len(lanes)
            res["chains"] += 1
            chain = []
        chain.append(desc)
        res["inputs"] += 1
        res["lane_inputs"] += len(lanes)
        outs = [ln.apply(desc, fm) for ln in lanes]
        ref = outs[0]
        kind = ref[0] if ref[0] != "OK" else ("closed" if lanes[0].closed() else
                                              ("reacted" if ref[1] and any(s[3] or s[4] for s in ref[1]
                                                                           if len(s) == 6) else "ignored"))
        res["classes"][kind] = res["classes"].get(kind, 0) + 1
        reset = False
        for ln, o in zip(lanes[1:], outs[1:]):
            if o == ref:
                continue
            reset = True
            label = desc[-1]
            if o[0] == "EXC" and ref[0] != "EXC":
                sig = {"monitor": "logging_only_exception", "exc": o[1], "where": o[3], "entry": o[2],
                       "setting": _skind(ln.setting), "part": "peerbot"}
                what = ("%s raised from %s (API %s) only with %s on input %s in state %s: %s"
                        % (o[1], o[3], o[2], sname(ln.setting), label, state, o[4]))
            else:
                sig = {"monitor": "behaviour_differs", "field": "reaction", "part": "peerbot",
                       "setting": _skind(ln.setting), "input": input_class(label)}
                what = ("reaction to input %s in state %s differs with %s: %s"
                        % (label, state, sname(ln.setting), first_diff(ref, o, "reaction")))
            res["viol"].append((sig, what, state, list(chain), list(ln.setting)))
        if ref[0] == "EXC":
            res["exc_both"] += 1
            if ref[1] == "OutOfContract":
                res["out_of_c_contract"] += 1
        if reset or ref[0] != "OK" or lanes[0].closed() or len(chain) >= 60:
            if ref[0] == "OK" and not reset:
                finish(lanes)
            lanes = None
    if lanes is not None:
        finish(lanes)
    res["viol"] = [tuple(v) + (tier,) for v in res["viol"]]  # the menu tier is needed to replay
    return res


# ------------------------------------------------------------------ B2: packet-number gaps
def gaps_plan(next_pn, n):
    """The peer uses every other packet number n times (n ACK ranges build up - more than one ACK
    frame can carry once n > ~76), lets the ACK timer fire, then repeats packets from the oldest,
    a middle and the newest range, fills one gap, and goes on."""
    base = next_pn + 1
    d = [("pnping", "1rtt", base + 2 * i, "PING_pn_base+%d" % (2 * i)) for i in range(n)]
    d.append(("timer", "1rtt", 0, "timer"))
    for off, nm in ((0, "oldest"), (2, "second_oldest"), (2 * (n // 2), "middle"), (2 * (n - 1), "newest")):
        d.append(("pnping", "1rtt", base + off, "PING_repeat_%s_pn" % nm))
    d.append(("pnping", "1rtt", base + 1, "PING_fill_first_gap"))
    d.append(("timer", "1rtt", 0, "timer"))
    d.append(("pnping", "1rtt", base + 2 * n, "PING_next_pn"))
    d.append(("pnping", "1rtt", base, "PING_repeat_oldest_pn_again"))
    d.append(("timer", "1rtt", 0, "timer"))
    return d


def task_gaps(item):
    state, n, settings = item
    settings = [tuple(x) for x in settings]
    lanes = [Lane(state, st, "quick") for st in settings]
    descs = gaps_plan(lanes[0].bot.next_pn, n)
    res = {"inputs": 0, "lane_inputs": 0, "viol": [], "qlogs": 0, "classes": {}, "max_ranges_seen": 0}
    chain = []
    for desc in descs:
        chain.append(desc)
        outs = [ln.apply(desc, None) for ln in lanes]
        res["inputs"] += 1
        res["lane_inputs"] += len(lanes)
        ref = outs[0]
        res["classes"][ref[0]] = res["classes"].get(ref[0], 0) + 1
        res["max_ranges_seen"] = max(res["max_ranges_seen"], len(lanes[0].bot.E.conn._spaces[tls.Epoch.ONE_RTT].ack_queue))
        bad = False
        for ln, o in zip(lanes[1:], outs[1:]):
            if o == ref:
                continue
            bad = True
            if o[0] == "EXC" and ref[0] != "EXC":
                sig = {"monitor": "logging_only_exception", "exc": o[1], "where": o[3], "entry": o[2],
                       "setting": _skind(ln.setting), "part": "peerbot"}
                what = ("%s raised from %s (API %s) only with %s on input %s (after %d inputs building %d ACK ranges) "
                        "in state %s: %s" % (o[1], o[3], o[2], sname(ln.setting), desc[-1], len(chain), n, state, o[4]))
            else:
                sig = {"monitor": "behaviour_differs", "field": "reaction", "part": "peerbot",
                       "setting": _skind(ln.setting), "input": "gaps:" + desc[-1].split("+")[0]}
                what = ("reaction to input %s (input %d of a peer that skipped %d packet numbers) in state %s differs "
                        "with %s: %s" % (desc[-1], len(chain), n, state, sname(ln.setting), first_diff(ref, o, "reaction")))
            res["viol"].append((sig, what, state, list(chain), list(ln.setting), "quick"))
        if bad or ref[0] != "OK" or lanes[0].closed():
            break
    else:
        ref = lanes[0].final()
        for ln in lanes[1:]:
            f = ln.final()
            if f != ref:
                res["viol"].append(({"monitor": "behaviour_differs", "field": "final_state", "part": "peerbot",
                                     "setting": _skind(ln.setting)},
                                    "final state differs with %s after the packet-number-gap chain (%d ranges) in state %s: %s"
                                    % (sname(ln.setting), n, state, first_diff(ref, f, "final_state")),
                                    state, list(chain), list(ln.setting), "quick"))
        for ln in lanes:
            if ln.setting[0]:
                v = []
                res["qlogs"] += check_qlog(ln.bot.w, v, "(state %s, packet-number-gap chain)" % state)
                for sig, what in v:
                    res["viol"].append((dict(sig, part="peerbot"), what, state, list(chain), list(ln.setting), "quick"))
    return res


# =========================================================================== C
def h3_capture(w):
    """record what H3Connection.handle_event returns"""
    cap = []
    orig = w.h.handle_event

    def handle_event(ev):
        out = orig(ev)
        cap.append(repr(out))
        return out

    w.h.handle_event = handle_event
    return cap


def _canon(w):
    c = w.canon()
    if c[0] != "h3":
        return c
    return (c[0], tuple(kv for kv in c[1] if kv[0] != "handle_event")) + tuple(c[2:])


def h3_observe(w, cap):
    """observation of a c16.World after one delivery"""
    raised = w.raised
    ce = w.closed()
    try:
        dg = tuple(len(d) for d, _a in w.quic.datagrams_to_send(w.now))
        dexc = None
    except Exception as e:  # noqa
        dg, dexc = None, (type(e).__name__, classify(e)[1])
    qevs = []
    while True:
        ev = w.quic.next_event()
        if ev is None:
            break
        qevs.append(type(ev).__name__)
    return (
        None if raised is None else (type(raised).__name__, classify(raised)[1]),
        tuple(cap), None if ce is None else (ce.error_code, ce.frame_type, ce.reason_phrase),
        _canon(w) if raised is None else None, dg, dexc, tuple(qevs),
    )


def h3_qlog_ok(w, viol, info):
    n = 0
    for q in (w.quic, w.peer):
        lg = q.configuration.quic_logger
        if lg is None:
            continue
        n += 1
        try:
            json.dumps(lg.to_dict())
        except Exception as e:  # noqa
            viol.append(({"monitor": "qlog.not_serialisable", "exc": type(e).__name__,
                          "where": classify(e)[1], "part": "h3"},
                         "json.dumps(QuicLogger.to_dict()) failed: %s: %s %s" % (type(e).__name__, e, info)))
    return n


def task_c(item):
    """frame_parsed path: C16's hostile menu, logger off vs on."""
    role, prefix, idxs, chunkings = item
    ms = c16.menu_for("h3", role)[0]
    res = {"cases": 0, "viol": [], "outcomes": set(), "qlogs": 0, "raised_both": 0, "skipped": 0}
    for i in idxs:
        msg = ms[i]
        for chunking in chunkings:
            obs = []
            for logger in (False, True):
                w = c16.build_world(("h3", role, logger, prefix), [])
                cap = h3_capture(w)
                try:
                    with deadline():
                        n = w.deliver(msg, chunking)
                        if n is not None:
                            o = h3_observe(w, cap)
                except RunTimeout:
                    n, o = 0, (("RunTimeout", "nontermination"),)
                if n is None:
                    obs.append(None)
                    continue
                obs.append(o)
                if logger:
                    v = []
                    res["qlogs"] += h3_qlog_ok(w, v, "(message %s)" % msg["label"])
                    for sig, what in v:
                        res["viol"].append((sig, what, {"role": role, "prefix": prefix, "label": msg["label"],
                                                        "chunking": chunking}))
            if obs[0] is None and obs[1] is None:
                res["skipped"] += 1
                continue
            res["cases"] += 1
            a, b = obs
            res["outcomes"].add(core.stable_hash((a[0], a[2], len(a[1]))) if a else "none")
            if a is not None and a[0] is not None and b is not None and b[0] == a[0]:
                res["raised_both"] += 1
            if a != b:
                if b is not None and a is not None and b[0] is not None and a[0] is None:
                    sig = {"monitor": "logging_only_exception", "exc": b[0][0], "where": b[0][1],
                           "entry": "H3Connection.handle_event", "setting": "qlog", "part": "h3"}
                    what = ("%s raised from %s by H3Connection.handle_event only with the qlog logger on "
                            "message %s (%s, prefix %s, %s)" % (b[0][0], b[0][1], msg["label"], role, prefix,
                                                                 chunking))
                else:
                    sig = {"monitor": "behaviour_differs", "field": "h3", "setting": "qlog", "part": "h3",
                           "input": msg["cls"]}
                    what = ("HTTP/3 layer behaves differently with the qlog logger on message %s (%s, prefix "
                            "%s, %s): %s" % (msg["label"], role, prefix, chunking,
                                             first_diff(a, b, "obs") if a and b else "%r vs %r" % (a, b)))
                res["viol"].append((sig, what, {"role": role, "prefix": prefix, "label": msg["label"],
                                                "chunking": chunking}))
    res["outcomes"] = sorted(res["outcomes"])
    return res


# ---- frame_created path: API calls with hostile header bytes, carried to the peer
HOSTILE_VALUES = [b"v", b"", b"\xff", b"\xc3\x28", b"a\x00b", b"a\r\nb", b"\x7f", b"\x01", b" lead", b"trail ",
                  b"\xe2\x82\xac", b"x" * 300, b"\xed\xa0\x80"]
HOSTILE_NAMES = [b"x-n", b"x-\xff", b"x\x00", b"X-Upper", b"x n", b"", b"x-\xe2\x82\xac", b":late", b"x:y",
                 b"x" * 200]


def api_menu():
    """[(label, actor, callable(h, sid))] - actor 'c' or 's'"""
    req = list(c16.REQ)
    resp = list(c16.RESP)
    out = []
    for v in HOSTILE_VALUES:
        out.append(("req_value:%r" % v[:12], "c", "headers", req + [(b"x-h", v)]))
        out.append(("resp_value:%r" % v[:12], "s", "headers", resp + [(b"x-h", v)]))
        out.append(("push_value:%r" % v[:12], "s", "push", req + [(b"x-h", v)]))
        out.append(("trailer_value:%r" % v[:12], "s", "trailers", [(b"x-t", v)]))
    for n in HOSTILE_NAMES:
        out.append(("req_name:%r" % n[:12], "c", "headers", req + [(n, b"v")]))
        out.append(("resp_name:%r" % n[:12], "s", "headers", resp + [(n, b"v")]))
        out.append(("push_name:%r" % n[:12], "s", "push", req + [(n, b"v")]))
    out.append(("path_non_utf8", "c", "headers", [(b":method", b"GET"), (b":scheme", b"https"),
                                                  (b":authority", b"localhost"), (b":path", b"/\xff\xfe")]))
    out.append(("authority_ctl", "c", "headers", [(b":method", b"GET"), (b":scheme", b"https"),
                                                  (b":authority", b"local\x00host"), (b":path", b"/")]))
    out.append(("status_non_ascii", "s", "headers", [(b":status", b"2\xff0")]))
    out.append(("data_binary", "c", "data", bytes(range(256))))
    out.append(("data_empty", "s", "data", b""))
    out.append(("datagram_binary", "c", "datagram", bytes(range(200, 256))))
    return out


def run_api_case(case, logger):
    label, actor, kind, arg = case
    client, server, now = c16.connected_pair("h3", logger)
    hc, hs = H3Connection(client), H3Connection(server)
    log = []
    exc = [None]

    def shuttle():
        nonlocal now
        for _ in range(6):
            moved = 0
            for src, dst, hdst, addr, nm in ((client, server, hs, c16.CLIENT_ADDR, "s"),
                                             (server, client, hc, c16.SERVER_ADDR, "c")):
                for d, _a in src.datagrams_to_send(now):
                    log.append((nm, "dgram", len(d)))
                    dst.receive_datagram(d, addr, now)
                    moved += 1
                while True:
                    ev = dst.next_event()
                    if ev is None:
                        break
                    if isinstance(ev, qev.ConnectionTerminated):
                        log.append((nm, "terminated", ev.error_code, ev.reason_phrase))
                    for he in hdst.handle_event(ev):
                        log.append((nm, repr(he)))
            now += 0.002
            if not moved:
                break

    def step(name, fn):
        if exc[0] is not None:
            return
        try:
            fn()
            log.append((name, "ok"))
        except Exception as e:  # noqa
            exc[0] = (type(e).__name__, classify(e)[1], name)
            log.append((name, "EXC", type(e).__name__))

    signal.signal(signal.SIGVTALRM, deadline()._fire)
    signal.setitimer(signal.ITIMER_VIRTUAL, RUN_SECONDS)
    step("shuttle0", shuttle)
    sid = client.get_next_available_stream_id()
    if actor == "c" and kind == "headers":
        step("send_headers", lambda: hc.send_headers(sid, arg, end_stream=True))
    else:
        step("send_headers", lambda: hc.send_headers(sid, list(c16.REQ), end_stream=(kind != "data" or actor != "c")))
        if actor == "c" and kind == "data":
            step("send_data", lambda: hc.send_data(sid, arg, end_stream=True))
        if actor == "c" and kind == "datagram":
            step("send_datagram", lambda: hc.send_datagram(sid, arg))
    step("shuttle1", shuttle)
    if actor == "s":
        if kind == "headers":
            step("send_headers", lambda: hs.send_headers(sid, arg, end_stream=True))
        elif kind == "push":
            def push():
                psid = hs.send_push_promise(sid, arg)
                hs.send_headers(psid, list(c16.RESP), end_stream=True)
            step("send_push_promise", push)
            step("send_headers", lambda: hs.send_headers(sid, list(c16.RESP), end_stream=True))
        elif kind == "trailers":
            step("send_headers", lambda: hs.send_headers(sid, list(c16.RESP)))
            step("send_data", lambda: hs.send_data(sid, b"body", end_stream=False))
            step("send_trailers", lambda: hs.send_headers(sid, arg, end_stream=True))
        elif kind == "data":
            step("send_headers", lambda: hs.send_headers(sid, list(c16.RESP)))
            step("send_data", lambda: hs.send_data(sid, arg, end_stream=True))
        step("shuttle2", shuttle)
    signal.setitimer(signal.ITIMER_VIRTUAL, 0)
    viol = []
    nq = 0
    if logger:
        for q in (client, server):
            nq += 1
            try:
                json.dumps(q.configuration.quic_logger.to_dict())
            except Exception as e:  # noqa
                viol.append(({"monitor": "qlog.not_serialisable", "exc": type(e).__name__,
                              "where": classify(e)[1], "part": "h3api"},
                             "json.dumps(QuicLogger.to_dict()) failed after %s: %s: %s"
                             % (label, type(e).__name__, e)))
    states = tuple((q._state.name, None if q._close_event is None else
                    (q._close_event.error_code, q._close_event.reason_phrase)) for q in (client, server))
    return (tuple(log), exc[0], states), viol, nq


def task_c_api(cases):
    res = {"cases": 0, "viol": [], "outcomes": set(), "qlogs": 0, "raised_both": 0}
    for case in cases:
        a, _v, _n = run_api_case(case, False)
        b, v, nq = run_api_case(case, True)
        res["cases"] += 1
        res["qlogs"] += nq
        res["outcomes"].add(core.stable_hash((a[1], a[2], len(a[0]))))
        for sig, what in v:
            res["viol"].append((sig, what, {"api_case": case[0]}))
        if a[1] is not None and b[1] == a[1]:
            res["raised_both"] += 1
        if a != b:
            if b[1] is not None and a[1] is None:
                sig = {"monitor": "logging_only_exception", "exc": b[1][0], "where": b[1][1], "entry": b[1][2],
                       "setting": "qlog", "part": "h3api"}
                what = ("%s raised from %s in step %s only with the qlog logger (case %s)"
                        % (b[1][0], b[1][1], b[1][2], case[0]))
            else:
                sig = {"monitor": "behaviour_differs", "field": "h3api", "setting": "qlog", "part": "h3api"}
                what = ("end-to-end HTTP/3 exchange differs with the qlog logger (case %s): %s"
                        % (case[0], first_diff(a, b, "obs")))
            res["viol"].append((sig, what, {"api_case": case[0]}))
    res["outcomes"] = sorted(res["outcomes"])
    return res


# ---- blocked-then-unblocked deliveries (QPACK dynamic table): bytes from a REAL sending
# H3Connection (checks/c14.py shapes via vlib/h3drive.Sender), message / push streams
# delivered BEFORE the encoder-stream bytes they depend on, then the encoder stream
# (whole, split in two / at every offset), logger off vs on at the receiver.
BLOCK_SHAPES = ("dyn", "dyn_body_trailers", "dyn_trailers_min", "dyn_acked", "dyn_push", "dyn_push_min")


def blocked_plans(sc, tier):
    """[(label, [step])], step = (sid, offset, n, fin)"""
    from checks import c14

    st = sc["streams"]
    enc = sc["enc"]
    apps = c14.app_streams(sc)
    others = [x for x in sc["order"] if x not in apps and x != enc and x != "d"]

    def whole(sid):
        return (sid, 0, len(st[sid]["data"]), st[sid]["fin"])

    def split(sid, k):
        n = len(st[sid]["data"])
        return [(sid, 0, k, False), (sid, k, n - k, st[sid]["fin"])]

    n_enc = len(st[enc]["data"]) if enc in st else 0
    pre = [whole(x) for x in others]
    plans = []
    if n_enc == 0:
        return plans
    cuts = sorted(set([n_enc // 2] + (list(range(1, n_enc)) if tier == "thorough" else [1, n_enc - 1])))
    cuts = [k for k in cuts if 0 < k < n_enc]
    for order_name, order in (("apps_in_order", apps), ("apps_reversed", list(reversed(apps)))):
        body = [whole(x) for x in order]
        plans.append(("%s,encoder_last_whole" % order_name, pre + body + [whole(enc)]))
        for k in cuts:
            plans.append(("%s,encoder_last_split@%d" % (order_name, k), pre + body + split(enc, k)))
        # each message stream individually ahead of the encoder stream, the rest after it
        for x in order:
            rest = [whole(y) for y in order if y != x]
            plans.append(("%s,only_%s_before_encoder" % (order_name, x), pre + [whole(x), whole(enc)] + rest))
        # encoder bytes in the middle of the message streams
        for i in range(1, len(order)):
            plans.append(("%s,encoder_after_%d_streams" % (order_name, i),
                          pre + body[:i] + [whole(enc)] + body[i:]))
    plans.append(("encoder_first", pre + [whole(enc)] + [whole(x) for x in apps]))
    return plans


def run_blocked(sc, plan, logging_on):
    from aioquic.quic.events import StreamDataReceived
    from aioquic.quic.logger import QuicLogger
    from vlib import h3drive

    rq = h3drive.RecQuic(sc["receiver_is_client"])
    lg = None
    if logging_on:
        lg = QuicLogger()
        rq._quic_logger = lg.start_trace(is_client=sc["receiver_is_client"], odcid=bytes(8))
    h3 = H3Connection(rq, enable_webtransport=sc["wt"])
    for op in sc["prelude"]:
        if op[0] == "request":
            sid = rq.get_next_available_stream_id()
            h3.send_headers(sid, list(op[1]), end_stream=op[2])
    log = []
    exc = None
    was_blocked = False
    for sid, off, n, fin in plan:
        data = sc["streams"][sid]["data"][off: off + n]
        try:
            with deadline():
                evs = h3.handle_event(StreamDataReceived(data=data, end_stream=fin, stream_id=sid))
        except RunTimeout:
            exc = ("RunTimeout", "nontermination")
            break
        except Exception as e:  # noqa
            exc = (type(e).__name__, classify(e)[1])
            log.append((sid, off, "EXC", type(e).__name__))
            break
        log.append((sid, off, repr(evs)))
        if any(s.blocked for s in h3._stream.values()):
            was_blocked = True
    streams = tuple((sid, tuple((k, h3drive._canon(v)) for k, v in sorted(vars(s).items())))
                    for sid, s in sorted(h3._stream.items()))
    conn = tuple((k, h3drive._canon(v)) for k, v in sorted(vars(h3).items()) if k not in h3drive._SKIP_CONN)
    sent = tuple(r[1:] for r in rq.log)
    jexc = None
    if lg is not None:
        try:
            json.dumps(lg.to_dict())
        except Exception as e:  # noqa
            jexc = (type(e).__name__, classify(e)[1], str(e)[:100])
    return (tuple(log), exc, streams if exc is None else None, conn if exc is None else None, rq.closed,
            sent), was_blocked, jexc


def task_c_blocked(item):
    from checks import c14

    shape, role, tier = item
    res = {"cases": 0, "viol": [], "outcomes": set(), "qlogs": 0, "raised_both": 0, "blocked_cases": 0}
    sc = c14.scenario(shape, role)
    if "error" in sc:
        raise core.HarnessError("c14 shape %s/%s could not be produced: %r" % (shape, role, sc))
    for label, plan in blocked_plans(sc, tier):
        a, blk, _ = run_blocked(sc, plan, False)
        b, _blk2, jexc = run_blocked(sc, plan, True)
        res["cases"] += 1
        res["qlogs"] += 1
        res["blocked_cases"] += 1 if blk else 0
        res["outcomes"].add(core.stable_hash((a[1], a[4], len(a[0]), blk)))
        loc = {"shape": shape, "role": role, "plan": label, "steps": [list(x) for x in plan]}
        if jexc is not None:
            res["viol"].append(({"monitor": "qlog.not_serialisable", "exc": jexc[0], "where": jexc[1],
                                 "part": "h3blocked"},
                                "json.dumps(QuicLogger.to_dict()) failed: %s: %s (shape %s/%s, %s)"
                                % (jexc[0], jexc[2], shape, role, label), loc))
        if a[1] is not None and a[1] == b[1]:
            res["raised_both"] += 1
        if a != b:
            if b[1] is not None and a[1] is None:
                sig = {"monitor": "logging_only_exception", "exc": b[1][0], "where": b[1][1],
                       "entry": "H3Connection.handle_event", "setting": "qlog", "part": "h3blocked"}
                what = ("%s raised from %s by H3Connection.handle_event only with the qlog logger while a "
                        "QPACK-blocked stream is processed (c14 shape %s, sender %s, delivery %s)"
                        % (b[1][0], b[1][1], shape, role, label))
            else:
                sig = {"monitor": "behaviour_differs", "field": "h3blocked", "setting": "qlog", "part": "h3blocked"}
                what = ("HTTP/3 layer behaves differently with the qlog logger on a blocked/unblocked delivery "
                        "(c14 shape %s, sender %s, %s): %s" % (shape, role, label, first_diff(a, b, "obs")))
            res["viol"].append((sig, what, loc))
    res["outcomes"] = sorted(res["outcomes"])
    return res


# ============================================================================ run
def _report(ctx, raw_viol, mk_replay):
    """raw_viol: list of (sig, what, *locator).  One report per signature: the first in
    enumeration order (menus are ordered simplest first)."""
    seen = {}
    for v in raw_viol:
        k = core.stable_hash(v[0])
        if k not in seen:
            seen[k] = v
    for k, v in seen.items():
        ctx.violation(v[0], v[1], mk_replay(v))


def chunk(lst, n):
    return [lst[i: i + n] for i in range(0, len(lst), n)]


_FUNCS = {}


def task_any(x):
    tag, item = x
    return _FUNCS[tag](item)


class Batch:
    """run(ctx) is executed twice: the first pass only collects the work items of all parts,
    then ONE worker pool executes them (forking a pool costs seconds of page copying per
    worker), the second pass aggregates."""

    def __init__(self):
        self.collecting = True
        self.items = []
        self.res = {}
        self.t0 = time.time()

    def get(self, tag, func, items):
        if self.collecting:
            _FUNCS[tag] = func
            self.items += [(tag, it) for it in items]
            return None
        return self.res.get(tag, [])

    def execute(self):
        # big items first
        order = sorted(range(len(self.items)), key=lambda i: 0 if self.items[i][0] in ("a", "b") else 1)
        out = core.pmap(task_any, [self.items[i] for i in order], ordered=True)
        for i, r in zip(order, out):
            self.res.setdefault(self.items[i][0], []).append((i, r))
        for tag in self.res:
            self.res[tag] = [r for _i, r in sorted(self.res[tag], key=lambda t: t[0])]
        self.collecting = False


# ------------------------------------------------------------------ part D: hostile / unusual TLS input
def tls_menu_chunk(args):
    """C05's menu of TLS handshake messages and transport-parameter encodings from a key-holding peer (legal but
    unusual ones included: preferred_address, version_information, unknown parameters), each on a fresh endpoint
    with the qlog off and on: same outcome, and the log of the second run serialises."""
    from checks import c05_tls

    lo, hi = args
    cases = [c for c in c05_tls.all_cases("quick", 0) if c[2][0] in ("menu_server_adv", "menu_client_adv")
             and not c[2][1].get("second")][lo:hi]
    out = []
    for label, role, (kind, meta, fn) in cases:
        obs = {}
        viol = None
        for qlog in (False, True):
            case = (label, role, (kind, dict(meta, cfg=dict(meta["cfg"], qlog=qlog)), fn))
            adv = None
            try:
                adv, _ = c05_tls.execute(case)
                v = adv.victim
                v.drive_to_end()
                term = v.terminated
                o = ("ok", v.handshake_completed, None if term is None else (int(term.error_code), term.reason_phrase),
                     tuple(type(e).__name__ for e in v.events), tuple(len(d) for d in v.sent))
            except core.HarnessError:
                raise
            except Exception as e:  # noqa
                if c05_tls.classify(e)[1] is None:
                    raise
                o = ("exception", type(e).__name__, c05_tls.classify(e)[1])
            obs[qlog] = o
            if qlog and adv is not None:
                lg = adv.victim.conn._configuration.quic_logger
                try:
                    json.dumps(lg.to_dict())
                except Exception as e:  # noqa
                    viol = ({"monitor": "qlog.not_serialisable", "exc": type(e).__name__, "part": "tls_menu"},
                            "json.dumps(QuicLogger.to_dict()) failed after a real %s received TLS input %s: %s: %s"
                            % (role, label, type(e).__name__, e))
        if viol is None and obs[False] != obs[True]:
            viol = ({"monitor": "observation_differs", "part": "tls_menu", "setting": "qlog"},
                    "a real %s that received TLS input %s behaves differently with the qlog on: off %r, on %r"
                    % (role, label, obs[False], obs[True]))
        out.append((label, role, obs[False][0:2], viol))
    return out


def run_tls_menu(ctx):
    from checks import c05_tls

    n = len([c for c in c05_tls.all_cases("quick", 0) if c[2][0] in ("menu_server_adv", "menu_client_adv")
             and not c[2][1].get("second")])
    tasks = [(lo, min(n, lo + 30)) for lo in range(0, n, 30)]
    outs = set()
    total = 0
    for chunk in core.pmap(tls_menu_chunk, tasks):
        for label, role, o, viol in chunk:
            total += 1
            outs.add((role, o))
            if viol:
                ctx.violation(dict(viol[0], role=role), viol[1], {"part": "tls_menu", "case": label})
    if len(outs) < 4:
        raise core.HarnessError("tls_menu part vacuous: %r" % sorted(outs, key=repr))
    ctx.part("tls_menu_qlog_off_on", evaluations=2 * total, transitions=2 * total, states=total, distinct_nontrivial=len(outs))


def run(ctx):
    batch = Batch()
    _run(ctx, batch)
    batch.execute()
    _run(ctx, batch)
    if not ctx.only_parts or "tls_menu" in ctx.only_parts:
        run_tls_menu(ctx)


def _run(ctx, batch):
    tier, seed = ctx.tier, ctx.seed
    # a setting in which the code loops forever also allocates forever: cap the address space
    soft, hard = resource.getrlimit(resource.RLIMIT_AS)
    resource.setrlimit(resource.RLIMIT_AS, (12 << 30, hard))
    quick = tier == "quick"
    only = ctx.only_parts
    t_all = batch.t0
    outcomes_total = 0

    # ------------------------------------------------------------------ part A
    def part_a():
        nonlocal outcomes_total
        scripts = sorted(c01.SCRIPTS)
        cfgs = ["reno_v1", "cubic_v2"] if quick else list(c01.CONFIGS)
        scen = {}
        for i, s in enumerate(scripts):
            for j, c in enumerate(cfgs):
                scen["%s/%s" % (s, c)] = ({"script": s, "cfg": c}, (i + j) % 4 == seed % 4 if quick else True)
        # special front-end scenarios: Retry and Version Negotiation packets are logged too
        for nm, cfg in (("retry", {"retry": True}), ("vn", {"vn": True}), ("retry_v2", {"retry": True, "version": c01.V2})):
            scen["echo/%s" % nm] = ({"ops": c01.SCRIPTS["echo"], "cfg": cfg}, True)
        # resumption with early data: the 0-RTT keys are one more epoch the logs have to name
        zr = {"c": [c01.W(0, 300, g="pre"), c01.W(0, 900, True, g="hs")], "s": [c01.W(0, 1500, True, g=("rx", 0, 1))]}
        for nm, cfg in (("zero_rtt", {"tickets": "obtain"}), ("zero_rtt_v2", {"tickets": "obtain", "version": c01.V2})):
            scen["resume/%s" % nm] = ({"ops": zr, "cfg": cfg}, not quick or nm == "zero_rtt")
        # pacing: a bulk transfer (every datagram delayed / dropped once => the congestion window moves on ACKs
        # that carry no RTT sample) and a second burst after an idle period (CUBIC resets its window) - what
        # the logger reads must not feed back into when packets leave
        bulk = {"c": [c01.W(0, 30000, True)]}
        idle2 = {"c": [c01.W(0, 6000), c01.W(0, 6000, True, g=("t", 3.0))], "s": [c01.W(1, 6000, True, g=("rx", 0, 6001))]}
        for nm, ops, cfg, dev in (("bulk_reno", bulk, {"cc": "reno"}, ("delay", "drop")),
                                  ("bulk_cubic_v2", bulk, {"cc": "cubic", "version": c01.V2}, ("delay",)),
                                  ("idle_then_burst_cubic", idle2, {"cc": "cubic"}, ("delay", "drop")),
                                  ("idle_then_burst_reno", idle2, {"cc": "reno"}, ("delay",))):
            scen["pacing/%s" % nm] = ({"ops": ops, "cfg": cfg, "dev": dev, "max_steps": 900},
                                      not quick or nm in ("bulk_reno", "idle_then_burst_cubic"))
        items = [(sid, sc, None if full else [[]]) for sid, (sc, full) in scen.items()]
        results = batch.get("a", task_a, items)
        if results is None:
            return
        agg = {"schedules": 0, "runs": 0, "steps": 0, "packets": 0, "qlogs": 0, "unopened": 0,
               "exceptions_both": 0}
        outs = set()
        viol = []
        for r in results:
            for k in agg:
                agg[k] += r[k]
            outs |= set(r["outcomes"])
            viol += r["viol"]
        viol.sort(key=lambda v: (sum(1 for c in v[3] if c), len(v[3])))
        _report(ctx, viol, lambda v: {"part": "netsim", "scenario_id": v[2], "scenario": scen[v[2]][0],
                                      "choices": v[3], "setting": v[4]})
        ctx.part("netsim_c01_d1", scenarios=len(scen), schedules=agg["schedules"], executions=agg["runs"],
                 evaluations=agg["runs"], states=agg["steps"], transitions=agg["steps"],
                 packets_compared=agg["packets"], qlog_documents_checked=agg["qlogs"],
                 packets_not_opened_by_observer=agg["unopened"], exceptions_in_all_settings=agg["exceptions_both"],
                 distinct_nontrivial=len(outs), violations_raw=len(viol))
        outcomes_total += len(outs)
        if not ctx.violations and agg["schedules"] > 20 and len(outs) < 3:
            raise core.HarnessError("vacuous: part A produced %d distinct run outcomes" % len(outs))
        ctx.sample({"part": "netsim", "scenario": "echo/retry", "settings": [sname(s) for s in SETTINGS],
                    "schedules": "default + every single deviation"})

    # ------------------------------------------------------------------ part B
    def part_b():
        nonlocal outcomes_total
        core4 = ["server_connected", "client_connected", "server_after_initial", "client_after_server_flight"]
        both = [SETTINGS[0], SETTINGS[3]]
        jobs = []  # (state, menu tier, settings)
        if quick:
            names = list(c05.STATES)
            k = seed % len(names)
            for st in sorted(set(["server_connected", "client_after_retry", names[k], names[(k + 5) % len(names)]])):
                jobs.append((st, "quick", both))
        else:
            for st in c05.STATES:
                jobs.append((st, "quick", list(SETTINGS) if st in core4 else both))
            for st in core4:
                jobs.append((st, "thorough", both))
        states = sorted(set(j[0] for j in jobs))
        settings = list(SETTINGS)
        items = []
        sizes = {}
        for st, mt, sett in jobs:
            n = len(plan_b(st, mt))
            sizes["%s/%s" % (st, mt)] = n
            for lo in range(0, n, 400):
                items.append((st, mt, lo, min(n, lo + 400), sett))
        results = batch.get("b", task_b, items)
        if results is None:
            return
        agg = {"inputs": 0, "endpoints": 0, "qlogs": 0, "exc_both": 0, "chains": 0, "out_of_c_contract": 0,
               "lane_inputs": 0}
        classes = {}
        viol = []
        for it, r in zip(items, results):
            for k in agg:
                agg[k] += r[k]
            for k, n in r["classes"].items():
                classes[(it[0], k)] = classes.get((it[0], k), 0) + n
            viol += r["viol"]
        _report(ctx, viol, lambda v: {"part": "peerbot", "state": v[2], "tier": v[5],
                                      "inputs": [list(d) for d in v[3]], "setting": v[4]})
        ctx.part("peerbot_c05_menus", states=len(states), inputs=agg["inputs"], evaluations=agg["lane_inputs"],
                 transitions=agg["inputs"], jobs=["%s/%s x%d settings" % (a, b, len(c)) for a, b, c in jobs],
                 endpoints=agg["endpoints"],
                 chains=agg["chains"], qlog_documents_checked=agg["qlogs"], exceptions_in_all_settings=agg["exc_both"],
                 skipped_out_of_c_contract=agg["out_of_c_contract"], distinct_nontrivial=len(classes), reaction_classes={"%s:%s" % k: n for k, n in sorted(classes.items())},
                 inputs_per_state=sizes, violations_raw=len(viol))
        outcomes_total += len(classes)
        if not ctx.violations and len(classes) < 4:
            raise core.HarnessError("vacuous: part B produced %d reaction classes" % len(classes))

    # ------------------------------------------------------------------ part B2
    def part_gaps():
        nonlocal outcomes_total
        ns = (3, 100) if quick else (3, 40, 76, 77, 78, 100, 180)
        items = [(st, n, list(SETTINGS)) for st in ("server_connected", "client_connected") for n in ns]
        results = batch.get("gaps", task_gaps, items)
        if results is None:
            return
        viol = []
        for r in results:
            viol += r["viol"]
        _report(ctx, viol, lambda v: {"part": "peerbot", "state": v[2], "tier": v[5],
                                      "inputs": [list(d) for d in v[3]], "setting": v[4]})
        mx = max(r["max_ranges_seen"] for r in results)
        if mx < 90:
            raise core.HarnessError("gaps: only %d ACK ranges were built" % mx)
        ctx.part("peerbot_pn_gaps", chains=len(items), inputs=sum(r["inputs"] for r in results),
                 evaluations=sum(r["lane_inputs"] for r in results), transitions=sum(r["inputs"] for r in results),
                 ranges_per_chain=list(ns), max_ack_ranges_held=mx,
                 qlog_documents_checked=sum(r["qlogs"] for r in results), distinct_nontrivial=len(ns),
                 violations_raw=len(viol))

    # ------------------------------------------------------------------ part C
    def part_c():
        nonlocal outcomes_total
        items = []
        for role in ("server", "client"):
            ms = c16.menu_for("h3", role)[0]
            for prefix in c16.PREFIXES:
                if quick:
                    idxs = [i for i, m in enumerate(ms) if m["lite"]]
                    # + a seed-rotated slice of the full menu
                    idxs += [i for i, m in enumerate(ms) if not m["lite"] and i % 16 == seed % 16
                             and prefix == "request"]
                    chunkings = ("whole",)
                else:
                    idxs = [i for i, m in enumerate(ms)
                            if m["lite"] or prefix in ("request", "blocked")
                            or not m["cls"].endswith(":raw-instruction")]
                    chunkings = ("whole", "bytes")
                for part in chunk(idxs, 40):
                    items.append((role, prefix, part, chunkings))
        results = batch.get("c", task_c, items)
        if results is None:
            return
        agg = {"cases": 0, "qlogs": 0, "raised_both": 0, "skipped": 0}
        outs = set()
        viol = []
        for r in results:
            for k in agg:
                agg[k] += r[k]
            outs |= set(r["outcomes"])
            viol += r["viol"]
        _report(ctx, viol, lambda v: dict(v[2], part="h3"))
        ctx.part("h3_c16_menu_frame_parsed", cases=agg["cases"], evaluations=2 * agg["cases"], transitions=agg["cases"],
                 not_enabled=agg["skipped"], qlog_documents_checked=agg["qlogs"],
                 exceptions_in_both_settings=agg["raised_both"], distinct_nontrivial=len(outs),
                 violations_raw=len(viol))
        outcomes_total += len(outs)

    def part_capi():
        nonlocal outcomes_total
        cases = api_menu()
        results = batch.get("capi", task_c_api, chunk(cases, 6))
        if results is None:
            return
        agg = {"cases": 0, "qlogs": 0, "raised_both": 0}
        outs = set()
        viol = []
        for r in results:
            for k in agg:
                agg[k] += r[k]
            outs |= set(r["outcomes"])
            viol += r["viol"]
        _report(ctx, viol, lambda v: dict(v[2], part="h3api"))
        ctx.part("h3_api_frame_created", cases=agg["cases"], evaluations=2 * agg["cases"], transitions=agg["cases"],
                 qlog_documents_checked=agg["qlogs"], exceptions_in_both_settings=agg["raised_both"],
                 distinct_nontrivial=len(outs), violations_raw=len(viol))
        outcomes_total += len(outs)
        if not ctx.violations and len(outs) < 2:
            raise core.HarnessError("vacuous: H3 API menu produced %d outcomes" % len(outs))

    if not only or "netsim" in only:
        part_a()
    if not only or "peerbot" in only:
        part_b()
    if not only or "peerbot" in only or "gaps" in only:
        part_gaps()
    def part_cblocked():
        nonlocal outcomes_total
        from checks import c14

        items = []
        for shape in BLOCK_SHAPES:
            for role in c14.SHAPE_BY_NAME[shape].roles:
                items.append((shape, role, tier))
        results = batch.get("cblk", task_c_blocked, items)
        if results is None:
            return
        agg = {"cases": 0, "qlogs": 0, "raised_both": 0, "blocked_cases": 0}
        outs = set()
        viol = []
        for r in results:
            for k in agg:
                agg[k] += r[k]
            outs |= set(r["outcomes"])
            viol += r["viol"]
        viol.sort(key=lambda v: len(v[2]["steps"]))
        _report(ctx, viol, lambda v: dict(v[2], part="h3blocked", tier=tier))
        ctx.part("h3_blocked_then_unblocked", shapes=len(items), cases=agg["cases"], evaluations=2 * agg["cases"],
                 transitions=agg["cases"], cases_with_a_blocked_stream=agg["blocked_cases"],
                 qlog_documents_checked=agg["qlogs"], exceptions_in_both_settings=agg["raised_both"],
                 distinct_nontrivial=len(outs), violations_raw=len(viol))
        outcomes_total += len(outs)
        if not ctx.violations and agg["blocked_cases"] < 10:
            raise core.HarnessError("vacuous: only %d deliveries blocked a stream" % agg["blocked_cases"])

    if not only or "h3" in only:
        part_c()
        part_capi()
        part_cblocked()
    if batch.collecting:
        return

    ctx.cov["rule"] = (
        "paired executions: every input of the menus (C01 scripts x default + every single-deviation "
        "schedule; C05 hostile datagram menus x connection states; C16 hostile HTTP/3 stream bytes; HTTP/3 "
        "API calls with hostile header bytes) is executed on fresh objects with qlog off/on x secrets log "
        "off/on and the normalised observations (per API call: exception-or-not, datagram sizes/times, "
        "decrypted frames, events, get_timer(); final state projection) are compared with the run without "
        "logging; qlog documents are json.dumps()ed and their packet records counted against the wire")
    ctx.cov["exhaustive"] = not ctx.caps_hit
    ctx.cov["bounds"] = {"tier": tier, "settings": [sname(s) for s in SETTINGS]}
    ctx.assumptions += [
        "random fields (CIDs, reset tokens, path challenges, CRYPTO payload, tokens) are compared by length and "
        "by order of first appearance",
        "'packet received' = a packet the connection took into frame processing (authentic, not a duplicate, "
        "reserved bits zero) or an accepted Retry / Version Negotiation packet",
        "in runs without a secrets log the observer's keys are read from conn._cryptos[epoch].send.secret",
        "qlog timestamps come from time.time() and are not compared",
    ]
    print("[C20] tier=%s distinct_outcomes=%d wall=%.1fs" % (tier, outcomes_total, time.time() - t_all))


# ========================================================================= replay
def replay(ctx, obj):
    rp = obj["replay"]
    part = rp["part"]
    bad = 0
    if part == "tls_menu":
        from checks import c05_tls

        cases = [c for c in c05_tls.all_cases("quick", 0) if c[2][0] in ("menu_server_adv", "menu_client_adv")
                 and not c[2][1].get("second")]
        idx = [i for i, c in enumerate(cases) if c[0] == rp["case"]]
        if not idx:
            print("case %r is not in the menu any more" % rp["case"])
            return 2
        for label, role, o, viol in tls_menu_chunk((idx[0], idx[0] + 1)):
            print("  %s (victim %s): %r" % (label, role, o))
            if viol:
                print("VIOLATION property=C20 replay=(replayed): %s" % viol[1])
                return 1
        print("no violation on replay")
        return 0
    if part == "netsim":
        sc, prefix = rp["scenario"], rp["choices"]
        print("scenario %s, choice list %r" % (rp["scenario_id"], prefix))
        ref = run_setting_a(sc, prefix, SETTINGS[0], trace=True)
        for line in ref["trace"]:
            print("   ", line)
        print("reference (%s): outcome %s, %d API steps" % (sname(SETTINGS[0]), ref["outcome"], len(ref["obs"][0])))
        for s in SETTINGS[1:]:
            o = run_setting_a(sc, prefix, s)
            vs = compare_a(ref, o, s) + o["viol"]
            print("%s: outcome %s, %d API steps, %s" % (sname(s), o["outcome"], len(o["obs"][0]),
                                                        "EQUAL" if not vs else "DIFFERENT"))
            for sig, what in vs:
                print("VIOLATION property=C20 replay=(replayed) %s: %s" % (sig["monitor"], what))
                bad = 1
    elif part == "peerbot":
        descs = [tuple(d) for d in rp["inputs"]]
        state, tier = rp["state"], rp.get("tier", "quick")
        fm = c05.frame_menu(tier)
        lanes = [Lane(state, s, tier) for s in SETTINGS]
        for d in descs:
            outs = [ln.apply(d, fm) for ln in lanes]
            print("input %s" % (d,))
            for ln, o in zip(lanes, outs):
                same = o == outs[0]
                print("   %-24s %s %s" % (sname(ln.setting), o[0], "" if same else "DIFFERENT: " +
                                          (first_diff(outs[0], o, "reaction") if o[0] == "OK" == outs[0][0] else repr(o[:5]))))
                if not same:
                    print("VIOLATION property=C20 replay=(replayed) reaction differs with %s" % sname(ln.setting))
                    bad = 1
        for ln in lanes:
            if ln.setting[0]:
                v = []
                check_qlog(ln.bot.w, v, "")
                for sig, what in v:
                    print("VIOLATION property=C20 replay=(replayed) %s: %s" % (sig["monitor"], what))
                    bad = 1
    elif part == "h3":
        r = task_c((rp["role"], rp["prefix"], [i for i, m in enumerate(c16.menu_for("h3", rp["role"])[0])
                                               if m["label"] == rp["label"]], (rp["chunking"],)))
        for sig, what, _loc in r["viol"]:
            print("VIOLATION property=C20 replay=(replayed) %s: %s" % (sig["monitor"], what))
            bad = 1
    elif part == "h3blocked":
        from checks import c14

        sc = c14.scenario(rp["shape"], rp["role"])
        plan = [tuple(x) for x in rp["steps"]]
        outs = []
        for lg in (False, True):
            o, blk, jexc = run_blocked(sc, plan, lg)
            outs.append(o)
            print("logger=%s (a stream was blocked: %s)" % (lg, blk))
            for line in o[0]:
                print("    ", c14.kind(sc, line[0]), line)
            if jexc:
                print("VIOLATION property=C20 replay=(replayed) qlog not serialisable: %r" % (jexc,))
                bad = 1
        if outs[0] != outs[1]:
            print("VIOLATION property=C20 replay=(replayed) differs with the qlog logger: %s"
                  % first_diff(outs[0], outs[1], "obs"))
            bad = 1
    elif part == "h3api":
        cases = [c for c in api_menu() if c[0] == rp["api_case"]]
        for c in cases:
            for lg in (False, True):
                o, v, _ = run_api_case(c, lg)
                print("logger=%s:" % lg)
                for line in o[0]:
                    print("    ", line)
        r = task_c_api(cases)
        for sig, what, _loc in r["viol"]:
            print("VIOLATION property=C20 replay=(replayed) %s: %s" % (sig["monitor"], what))
            bad = 1
    if not bad:
        print("no violation on replay")
    return bad
