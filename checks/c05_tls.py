"""C05 (TLS part) - hostile but well-MACed TLS messages in CRYPTO frames never make the API raise.

World: ONE real QuicConnection (client or server) and a QUIC-level key-holding TLS adversary
(`vlib.quicadv`: reftls for the TLS brain, refquic for packet protection).  Engine: exhaustive
enumeration (E3) of a menu of structurally valid, semantically hostile handshake messages, each
sent at depth 1 after the legal prefix that makes its type the expected one (plus a few of each
type where it is NOT expected), plus representative messages split over two CRYPTO frames at
every byte boundary (in order, reversed, and in two datagrams).

Oracle: `receive_datagram` returns normally (input ignored or connection closed with some error
code - which one is not judged); afterwards get_timer / handle_timer / datagrams_to_send /
next_event keep returning normally until ConnectionTerminated (`Victim.drive_to_end`).

Entry points: `run_tls(ctx)` (called by checks/c05.py) and `run(ctx)` (stand-alone wrapper).
"""
import os
import traceback

from vlib import core

LEVEL = "model_checking"

from vlib import certs, quicadv as Q, refquic, reftls as R  # noqa: E402

from aioquic.quic.connection import QuicConnection  # noqa: E402

import logging  # noqa: E402
import warnings  # noqa: E402

warnings.filterwarnings("ignore")
logging.getLogger("quic").setLevel(logging.CRITICAL)

U16 = R.u16


class _ReqCertServer(QuicConnection):
    """Server whose TLS context requests a client certificate (aioquic has only a private,
    test-only switch for that; set from the harness)."""

    def _initialize(self, peer_cid):
        super()._initialize(peer_cid)
        self.tls._request_client_certificate = True


# ------------------------------------------------------------------ helper material
_X = {}


def odd_certificates():
    """DER certificates with unusual subject keys, signed by the harness CA: X25519 (a key type that
    cannot sign), DSA-free; generated once per process."""
    if "x25519" not in _X:
        from cryptography.hazmat.primitives.asymmetric import x25519

        with open(certs.path("ca.key"), "rb") as f:
            cak = R.load_pem_key(f.read())
        k = x25519.X25519PrivateKey.generate()
        c = certs.make_cert("localhost", k, "verif-ca", cak, sans=("localhost",))
        _X["x25519"] = c.public_bytes(R.serialization.Encoding.DER)
    return _X


def valid_chain(kt="ed25519"):
    if ("chain", kt) not in _X:
        with open(certs.path(kt + ".pem"), "rb") as f:
            _X[("chain", kt)] = R.load_pem_chain(f.read())
    return _X[("chain", kt)]


def ext_replace(exts, t, data):
    return [(a, data if a == t else b) for a, b in exts]


def ext_without(exts, t):
    return [(a, b) for a, b in exts if a != t]


def ext_dup(exts, t):
    out = []
    for a, b in exts:
        out.append((a, b))
        if a == t:
            out.append((a, b))
    return out


def hs(msg_type, body):
    return R.encode_handshake(msg_type, body)


def lying_header(msg_type, declared, body):
    """handshake header declaring `declared` bytes, followed by `body`"""
    return bytes([msg_type]) + declared.to_bytes(3, "big") + body


P256_OFF_CURVE = b"\x04" + (1).to_bytes(32, "big") + (1).to_bytes(32, "big")
P256_INFINITY_LIKE = b"\x04" + bytes(64)


def key_share_menu():
    """(label, group, key_exchange) hostile key shares (the same list is used in both directions)."""
    return [
        ("unknown_group", 0x9999, bytes(32)),
        ("grease_group", 0x1A1A, b"\x00"),
        ("x25519_len31", R.GROUP_X25519, bytes(range(31))),
        ("x25519_len33", R.GROUP_X25519, bytes(range(33))),
        ("x25519_empty", R.GROUP_X25519, b""),
        ("x25519_zero", R.GROUP_X25519, bytes(32)),
        ("x448_len55", R.GROUP_X448, bytes(55)),
        ("x448_zero", R.GROUP_X448, bytes(56)),
        ("p256_off_curve", R.GROUP_SECP256R1, P256_OFF_CURVE),
        ("p256_zero_point", R.GROUP_SECP256R1, P256_INFINITY_LIKE),
        ("p256_len64", R.GROUP_SECP256R1, P256_OFF_CURVE[:64]),
        ("p256_compressed", R.GROUP_SECP256R1, b"\x02" + bytes(31) + b"\x01"),
        ("p256_empty", R.GROUP_SECP256R1, b""),
        ("p384_off_curve", R.GROUP_SECP384R1, b"\x04" + (1).to_bytes(48, "big") + (1).to_bytes(48, "big")),
        ("p521_not_offered", 0x0019, b"\x04" + bytes(132)),
        ("ffdhe2048", 0x0100, bytes(256)),
    ]


def tp_menu(valid, role):
    """(label, items or raw bytes) hostile transport-parameter encodings; role = who SENDS them."""
    v = Q.varint
    out = [("tp_empty", b"")]
    for pid in Q.TP_INT_IDS:
        out.append(("tp_int%02x_truncated_varint" % pid, Q.tp_replace(valid, pid, b"\x40")))
        out.append(("tp_int%02x_empty" % pid, Q.tp_replace(valid, pid, b"")))
        out.append(("tp_int%02x_trailing" % pid, Q.tp_replace(valid, pid, v(5) + b"\x00")))
        out.append(("tp_int%02x_max" % pid, Q.tp_replace(valid, pid, v((1 << 62) - 1))))
    blob = Q.enc_tp(valid)
    out += [
        ("tp_cut_last_byte", blob[:-1]),
        ("tp_cut_half", blob[:len(blob) // 2]),
        ("tp_length_lies_long", blob + v(0x7777) + v(50) + b"xx"),
        ("tp_length_8byte_varint", blob + v(0x7777) + v(3, 8) + b"abc"),
        ("tp_id_only", blob + v(0x7777)),
        ("tp_iscid_mismatch", Q.tp_replace(valid, Q.TP_ISCID, bytes(8))),
        ("tp_iscid_missing", Q.tp_without(valid, Q.TP_ISCID)),
        ("tp_iscid_empty", Q.tp_replace(valid, Q.TP_ISCID, b"")),
        ("tp_iscid_21bytes", Q.tp_replace(valid, Q.TP_ISCID, bytes(21))),
        ("tp_retry_scid_unexpected", valid + [(Q.TP_RETRY_SCID, bytes(8))]),
        ("tp_active_cid_limit_0", Q.tp_replace(valid, Q.TP_ACTIVE_CID_LIMIT, v(0))),
        ("tp_active_cid_limit_1", Q.tp_replace(valid, Q.TP_ACTIVE_CID_LIMIT, v(1))),
        ("tp_ack_delay_exponent_21", Q.tp_replace(valid, Q.TP_ACK_DELAY_EXPONENT, v(21))),
        ("tp_max_udp_payload_1199", Q.tp_replace(valid, Q.TP_MAX_UDP_PAYLOAD_SIZE, v(1199))),
        ("tp_max_udp_payload_0", Q.tp_replace(valid, Q.TP_MAX_UDP_PAYLOAD_SIZE, v(0))),
        ("tp_max_ack_delay_16384", Q.tp_replace(valid, Q.TP_MAX_ACK_DELAY, v(16384))),
        ("tp_max_streams_bidi_2e60p1", Q.tp_replace(valid, Q.TP_MAX_STREAMS_BIDI, v((1 << 60) + 1))),
        ("tp_max_streams_uni_2e60p1", Q.tp_replace(valid, Q.TP_MAX_STREAMS_UNI, v((1 << 60) + 1))),
        ("tp_initial_max_data_0", Q.tp_replace(valid, Q.TP_INITIAL_MAX_DATA, v(0))),
        ("tp_idle_timeout_dup", valid + [(Q.TP_MAX_IDLE_TIMEOUT, v(1))]),
        ("tp_all_dup", valid + valid),
        ("tp_unknown_param", valid + [(0x7777, b"hello")]),
        ("tp_grease_param", valid + [(27 + 31 * 5, b"")]),
        ("tp_disable_migration_with_value", valid + [(Q.TP_DISABLE_ACTIVE_MIGRATION, b"\x01")]),
        ("tp_max_datagram_frame_size_max", valid + [(Q.TP_MAX_DATAGRAM_FRAME_SIZE, v((1 << 62) - 1))]),
        ("tp_version_info_chosen_other", valid + [(Q.TP_VERSION_INFORMATION, Q.V2.to_bytes(4, "big") + Q.V1.to_bytes(4, "big"))]),
        ("tp_version_info_chosen_not_available", valid + [(Q.TP_VERSION_INFORMATION, Q.V1.to_bytes(4, "big") + Q.V2.to_bytes(4, "big"))]),
        ("tp_version_info_only_chosen", valid + [(Q.TP_VERSION_INFORMATION, Q.V1.to_bytes(4, "big"))]),
        ("tp_version_info_3bytes", valid + [(Q.TP_VERSION_INFORMATION, b"\x00\x00\x00")]),
        ("tp_version_info_6bytes", valid + [(Q.TP_VERSION_INFORMATION, Q.V1.to_bytes(4, "big") + b"\x00\x00")]),
        ("tp_version_info_empty", valid + [(Q.TP_VERSION_INFORMATION, b"")]),
        ("tp_version_info_zero_version", valid + [(Q.TP_VERSION_INFORMATION, bytes(8))]),
        ("tp_reset_token_15", valid + [(Q.TP_STATELESS_RESET_TOKEN, bytes(15))]),
        ("tp_reset_token_17", valid + [(Q.TP_STATELESS_RESET_TOKEN, bytes(17))]),
        ("tp_reset_token_16", valid + [(Q.TP_STATELESS_RESET_TOKEN, bytes(16))]),
        ("tp_preferred_address_truncated", valid + [(Q.TP_PREFERRED_ADDRESS, bytes(10))]),
        ("tp_preferred_address_cid_lies", valid + [(Q.TP_PREFERRED_ADDRESS, bytes(24) + b"\x14" + bytes(4))]),
        ("tp_preferred_address_ok", valid + [(Q.TP_PREFERRED_ADDRESS, bytes(24) + b"\x04" + bytes(4) + bytes(16))]),
        ("tp_odcid_extra", valid + [(Q.TP_ODCID, bytes(8))]) if role == "client" else
        ("tp_odcid_mismatch", Q.tp_replace(valid, Q.TP_ODCID, bytes(8))),
    ]
    if role == "server":
        out += [("tp_odcid_missing", Q.tp_without(valid, Q.TP_ODCID)),
                ("tp_odcid_21bytes", Q.tp_replace(valid, Q.TP_ODCID, bytes(21)))]
    return out


GARBAGE_DER = bytes.fromhex("3082010a0282010100") + bytes(range(40))
WRONG_TYPES = [("wrongtype_client_hello", lambda a: a.tls.make("client_hello")),
               ("wrongtype_finished", lambda a: a.tls.make("finished")),
               ("wrongtype_key_update", lambda a: R.KeyUpdate(0).encode()),
               ("wrongtype_unknown99", lambda a: hs(99, b"\x01\x02\x03")),
               ("wrongtype_message_hash", lambda a: a.tls.make("message_hash")),
               ("wrongtype_end_of_early_data", lambda a: R.EndOfEarlyData().encode()),
               ("wrongtype_compressed_certificate", lambda a: a.tls.make("compressed_certificate"))]


# ------------------------------------------------------ cases against a real CLIENT
def server_adv_cases():
    """list of (label, dict(prefix=[...], chain=..., cfg=...), fn(adv) -> None)."""
    cases = []

    def add(label, prefix, fn, chain="ed25519", cfg=None):
        cases.append((label, {"prefix": prefix, "chain": chain, "cfg": cfg or {}}, fn))

    def send(epoch, build, **kw):
        def fn(adv):
            raw = build(adv)
            adv.send_tls(epoch, raw if isinstance(raw, bytes) else raw.encode(), **kw)
        return fn

    # ---- ServerHello menu (prefix: nothing; epoch initial)
    def sh(mod):
        def build(adv):
            m = R.parse_message(adv.make("SH"))
            r = mod(adv, m)
            return m if r is None else r
        return send("initial", build)

    def setext(t, data):
        def mod(adv, m):
            m.extensions = ext_replace(m.extensions, t, data)
        return mod

    add("sh_without_key_share", [], sh(lambda a, m: setattr(m, "extensions", ext_without(m.extensions, R.EXT_KEY_SHARE))))
    add("sh_without_supported_versions", [], sh(lambda a, m: setattr(m, "extensions", ext_without(m.extensions, R.EXT_SUPPORTED_VERSIONS))))
    add("sh_no_extensions", [], sh(lambda a, m: setattr(m, "extensions", [])))
    add("sh_dup_key_share", [], sh(lambda a, m: setattr(m, "extensions", ext_dup(m.extensions, R.EXT_KEY_SHARE))))
    add("sh_dup_supported_versions", [], sh(lambda a, m: setattr(m, "extensions", ext_dup(m.extensions, R.EXT_SUPPORTED_VERSIONS))))
    add("sh_unknown_extension", [], sh(lambda a, m: m.extensions.append((0xABCD, b"xyz"))))
    add("sh_unknown_extension_empty", [], sh(lambda a, m: m.extensions.append((0xABCD, b""))))
    add("sh_many_extensions", [], sh(lambda a, m: m.extensions.extend((0xA000 + i, b"") for i in range(200))))
    for label, group, ke in key_share_menu():
        add("sh_key_share_" + label, [], sh(setext(R.EXT_KEY_SHARE, R.ext_key_share_server(group, ke))))
    add("sh_key_share_payload_empty", [], sh(setext(R.EXT_KEY_SHARE, b"")))
    add("sh_key_share_group_only", [], sh(setext(R.EXT_KEY_SHARE, U16(R.GROUP_X25519))))
    add("sh_key_share_length_lies", [], sh(setext(R.EXT_KEY_SHARE, U16(R.GROUP_X25519) + U16(40) + bytes(32))))
    add("sh_key_share_trailing", [], sh(lambda a, m: setattr(m, "extensions", ext_replace(
        m.extensions, R.EXT_KEY_SHARE, m.ext(R.EXT_KEY_SHARE) + b"\x00"))))
    for label, data in (("empty", b""), ("1byte", b"\x03"), ("3bytes", b"\x03\x04\x00"), ("tls12", U16(0x0303)),
                        ("tls11", U16(0x0302)), ("0x0305", U16(0x0305)), ("draft28", U16(0x7F1C)), ("zero", U16(0))):
        add("sh_supported_versions_" + label, [], sh(setext(R.EXT_SUPPORTED_VERSIONS, data)))
    for cs in (0x1304, 0x1305, 0x00FF, 0x9999, 0x0000, 0xC02F):
        add("sh_cipher_suite_%04x" % cs, [], sh(lambda a, m, cs=cs: setattr(m, "cipher_suite", cs)))
    add("sh_session_id_32", [], sh(lambda a, m: setattr(m, "legacy_session_id_echo", bytes(32))))
    add("sh_session_id_1", [], sh(lambda a, m: setattr(m, "legacy_session_id_echo", b"\x07")))
    add("sh_session_id_33", [], sh(lambda a, m: setattr(m, "legacy_session_id_echo", bytes(33))))
    add("sh_session_id_255", [], sh(lambda a, m: setattr(m, "legacy_session_id_echo", bytes(255))))
    add("sh_compression_1", [], sh(lambda a, m: setattr(m, "legacy_compression_method", 1)))
    for ver in (0x0304, 0x0301, 0x0000, 0xFFFF):
        add("sh_legacy_version_%04x" % ver, [], sh(lambda a, m, ver=ver: setattr(m, "legacy_version", ver)))
    add("sh_psk_index0_not_offered", [], sh(lambda a, m: m.extensions.append((R.EXT_PRE_SHARED_KEY, U16(0)))))
    add("sh_psk_index9", [], sh(lambda a, m: m.extensions.append((R.EXT_PRE_SHARED_KEY, U16(9)))))
    add("sh_psk_payload_1byte", [], sh(lambda a, m: m.extensions.append((R.EXT_PRE_SHARED_KEY, b"\x00"))))
    add("sh_downgrade_sentinel", [], sh(lambda a, m: setattr(m, "random", bytes(24) + b"DOWNGRD\x01")))
    add("sh_extension_forbidden_alpn", [], sh(lambda a, m: m.extensions.append((R.EXT_ALPN, R.ext_alpn(["verif"])))))
    add("sh_extension_forbidden_tp", [], sh(lambda a, m: m.extensions.append((R.EXT_QUIC_TRANSPORT_PARAMETERS, Q.enc_tp(a.tp)))))
    add("sh_extension_server_name", [], sh(lambda a, m: m.extensions.append((R.EXT_SERVER_NAME, b""))))
    add("sh_extension_early_data", [], sh(lambda a, m: m.extensions.append((R.EXT_EARLY_DATA, b""))))
    add("sh_extension_cookie", [], sh(lambda a, m: m.extensions.append((R.EXT_COOKIE, R.vec(2, b"c")))))
    # raw encodings
    add("sh_zero_length", [], send("initial", lambda a: hs(R.HT_SERVER_HELLO, b"")))
    add("sh_declared_2e24m1", [], send("initial", lambda a: lying_header(R.HT_SERVER_HELLO, 0xFFFFFF, a.make("SH")[4:])))
    add("sh_declared_too_short", [], send("initial", lambda a: lying_header(R.HT_SERVER_HELLO, 20, a.make("SH")[4:])))
    add("sh_truncated_body_40", [], send("initial", lambda a: hs(R.HT_SERVER_HELLO, a.make("SH")[4:44])))
    add("sh_truncated_in_extensions", [], send("initial", lambda a: hs(R.HT_SERVER_HELLO, a.make("SH")[4:-3])))
    add("sh_trailing_garbage", [], send("initial", lambda a: hs(R.HT_SERVER_HELLO, a.make("SH")[4:] + b"\x00\x00")))
    add("sh_extension_length_lies", [], send("initial", lambda a: hs(
        R.HT_SERVER_HELLO, a.make("SH")[4:-2] + b"\xff\xff")))
    add("sh_extensions_block_length_lies", [], sh(lambda a, m: hs(R.HT_SERVER_HELLO, m.body()[:-len(R.encode_extensions(m.extensions))]
                                                                  + U16(0xFFF0) + R.encode_extensions(m.extensions)[2:])))
    add("sh_twice", [], lambda adv: (adv.send_tls("initial", adv.make("SH") * 2)))
    # HelloRetryRequest shapes
    add("hrr_group_p384", [], send("initial", lambda a: a.make("hello_retry_request")))
    add("hrr_group_x25519", [], send("initial", lambda a: a.make("hello_retry_request", group=R.GROUP_X25519)))
    add("hrr_unknown_group", [], send("initial", lambda a: a.make("hello_retry_request", group=0x9999)))

    def hrr_exts(exts):
        def build(a):
            m = R.parse_message(a.make("hello_retry_request"))
            m.extensions = exts(m)
            return m
        return send("initial", build)
    add("hrr_no_key_share", [], hrr_exts(lambda m: ext_without(m.extensions, R.EXT_KEY_SHARE)))
    add("hrr_cookie_only", [], hrr_exts(lambda m: ext_without(m.extensions, R.EXT_KEY_SHARE) + [(R.EXT_COOKIE, R.vec(2, b"cookie"))]))
    add("hrr_no_extensions", [], hrr_exts(lambda m: []))
    add("hrr_full_key_share", [], hrr_exts(lambda m: ext_replace(m.extensions, R.EXT_KEY_SHARE,
                                                                 R.ext_key_share_server(R.GROUP_X25519, bytes(range(32))))))
    for label, fn in WRONG_TYPES[1:]:
        add("initial_" + label, [], send("initial", fn))
    add("initial_wrongtype_encrypted_extensions", [], send("initial", lambda a: a.ee()))

    # ---- EncryptedExtensions menu (prefix SH; epoch handshake)
    P1 = ["SH"]
    add("ee_no_alpn", P1, send("handshake", lambda a: a.ee(alpn=None)))
    add("ee_alpn_not_offered", P1, send("handshake", lambda a: a.ee(alpn=R.ext_alpn(["zz"]))))
    add("ee_alpn_empty_list", P1, send("handshake", lambda a: a.ee(alpn=R.vec(2, b""))))
    add("ee_alpn_empty_payload", P1, send("handshake", lambda a: a.ee(alpn=b"")))
    add("ee_alpn_empty_name", P1, send("handshake", lambda a: a.ee(alpn=R.vec(2, R.vec(1, b"")))))
    add("ee_alpn_two_protocols", P1, send("handshake", lambda a: a.ee(alpn=R.ext_alpn(["verif", "zz"]))))
    add("ee_alpn_non_ascii", P1, send("handshake", lambda a: a.ee(alpn=R.ext_alpn([b"\xff\xfe"]))))
    add("ee_alpn_nul_bytes", P1, send("handshake", lambda a: a.ee(alpn=R.ext_alpn([b"ve\x00if"]))))
    add("ee_alpn_255_bytes", P1, send("handshake", lambda a: a.ee(alpn=R.ext_alpn([b"a" * 255]))))
    add("ee_alpn_length_lies", P1, send("handshake", lambda a: a.ee(alpn=U16(9) + b"\x05verif")))
    add("ee_alpn_dup", P1, send("handshake", lambda a: a.ee(extra=[(R.EXT_ALPN, R.ext_alpn(["verif"]))])))
    add("ee_no_tp", P1, send("handshake", lambda a: a.ee(drop_tp=True)))
    add("ee_no_extensions", P1, send("handshake", lambda a: R.EncryptedExtensions([])))
    add("ee_tp_dup", P1, send("handshake", lambda a: a.ee(extra=[(R.EXT_QUIC_TRANSPORT_PARAMETERS, Q.enc_tp(a.tp))])))
    add("ee_tp_draft_codepoint", P1, send("handshake", lambda a: a.ee(drop_tp=True, extra=[(0xFFA5, Q.enc_tp(a.tp))])))
    probe = Q.server_tp(bytes(8))
    for i, (label, _) in enumerate(tp_menu(probe, "server")):
        add("ee_" + label, P1, send("handshake", lambda a, i=i: a.ee(tp_items=tp_menu(a.tp, "server")[i][1])))
    add("ee_early_data_not_offered", P1, send("handshake", lambda a: a.ee(extra=[(R.EXT_EARLY_DATA, b"")])))
    add("ee_early_data_with_payload", P1, send("handshake", lambda a: a.ee(extra=[(R.EXT_EARLY_DATA, b"\x00\x00\x00\x01")])))
    add("ee_server_name_empty", P1, send("handshake", lambda a: a.ee(extra=[(R.EXT_SERVER_NAME, b"")])))
    add("ee_server_name_non_ascii", P1, send("handshake", lambda a: a.ee(extra=[(R.EXT_SERVER_NAME, R.ext_server_name(b"\xff\xfe"))])))
    add("ee_supported_groups", P1, send("handshake", lambda a: a.ee(extra=[(R.EXT_SUPPORTED_GROUPS, R.ext_supported_groups([0x1D]))])))
    add("ee_key_share_forbidden", P1, send("handshake", lambda a: a.ee(extra=[(R.EXT_KEY_SHARE, R.ext_key_share_server(0x1D, bytes(32)))])))
    add("ee_unknown_extension", P1, send("handshake", lambda a: a.ee(extra=[(0xABCD, b"xyz")])))
    add("ee_200_unknown_extensions", P1, send("handshake", lambda a: a.ee(extra=[(0xA000 + i, b"") for i in range(200)])))
    add("ee_60k_extension", P1, send("handshake", lambda a: a.ee(extra=[(0xABCD, bytes(60000))])))
    add("ee_zero_length", P1, send("handshake", lambda a: hs(R.HT_ENCRYPTED_EXTENSIONS, b"")))
    add("ee_declared_2e24m1", P1, send("handshake", lambda a: lying_header(R.HT_ENCRYPTED_EXTENSIONS, 0xFFFFFF, a.ee()[4:])))
    add("ee_block_length_lies", P1, send("handshake", lambda a: hs(R.HT_ENCRYPTED_EXTENSIONS, U16(0xFFF0) + a.ee()[6:])))
    add("ee_extension_length_lies", P1, send("handshake", lambda a: hs(R.HT_ENCRYPTED_EXTENSIONS, a.ee()[4:-2] + b"\xff\xff")))
    add("ee_trailing_garbage", P1, send("handshake", lambda a: hs(R.HT_ENCRYPTED_EXTENSIONS, a.ee()[4:] + b"\x00")))
    add("ee_in_initial_epoch", P1, send("initial", lambda a: a.ee()))
    for label, fn in WRONG_TYPES:
        add("after_sh_" + label, P1, send("handshake", fn))
    add("after_sh_wrongtype_server_hello", P1, send("handshake", lambda a: a.make("SH")))
    add("after_sh_wrongtype_new_session_ticket", P1, send("handshake", lambda a: a.make("NST")))
    add("after_sh_wrongtype_certificate", P1, send("handshake", lambda a: a.make("CERT")))

    # ---- CertificateRequest / Certificate menu (prefix SH EE)
    P2 = ["SH", "EE"]
    SA = R.ext_signature_algorithms
    add("cr_context_nonempty", P2, send("handshake", lambda a: R.CertificateRequest(b"ctx", [(R.EXT_SIGNATURE_ALGORITHMS, SA([R.SIG_ED25519]))])))
    add("cr_context_255", P2, send("handshake", lambda a: R.CertificateRequest(bytes(255), [(R.EXT_SIGNATURE_ALGORITHMS, SA([R.SIG_ED25519]))])))
    add("cr_no_signature_algorithms", P2, send("handshake", lambda a: R.CertificateRequest(b"", [])))
    add("cr_empty_signature_algorithms", P2, send("handshake", lambda a: R.CertificateRequest(b"", [(R.EXT_SIGNATURE_ALGORITHMS, R.vec(2, b""))])))
    add("cr_signature_algorithms_payload_empty", P2, send("handshake", lambda a: R.CertificateRequest(b"", [(R.EXT_SIGNATURE_ALGORITHMS, b"")])))
    add("cr_signature_algorithms_odd_length", P2, send("handshake", lambda a: R.CertificateRequest(b"", [(R.EXT_SIGNATURE_ALGORITHMS, R.vec(2, b"\x08\x07\x04"))])))
    add("cr_dup_signature_algorithms", P2, send("handshake", lambda a: R.CertificateRequest(b"", [(R.EXT_SIGNATURE_ALGORITHMS, SA([R.SIG_ED25519]))] * 2)))
    add("cr_unknown_schemes_only", P2, send("handshake", lambda a: R.CertificateRequest(b"", [(R.EXT_SIGNATURE_ALGORITHMS, SA([0x9999, 0x0000]))])))
    add("cr_unknown_extension", P2, send("handshake", lambda a: R.CertificateRequest(b"", [(R.EXT_SIGNATURE_ALGORITHMS, SA([R.SIG_ED25519])), (0xABCD, b"x")])))
    add("cr_zero_length", P2, send("handshake", lambda a: hs(R.HT_CERTIFICATE_REQUEST, b"")))
    add("cr_twice", P2, lambda adv: adv.send_tls("handshake", adv.make("CR") * 2))

    def with_cr_then_finish(adv, cr):
        """CertificateRequest variant, then the rest of a legal flight: the client must build its own
        Certificate/CertificateVerify answer (it has no certificate)"""
        raw = cr.encode()
        adv.send_tls("handshake", raw)
        if adv.victim.closing:
            return
        adv.accepted(raw)
        for lab in ("CERT", "CV", "FIN"):
            adv.legal(lab)
            if adv.victim.closing:
                return
    add("cr_context_then_full_flight", P2, lambda adv: with_cr_then_finish(
        adv, R.CertificateRequest(b"ctx", [(R.EXT_SIGNATURE_ALGORITHMS, SA([R.SIG_ED25519]))])))
    add("cr_no_sigalgs_then_full_flight", P2, lambda adv: with_cr_then_finish(adv, R.CertificateRequest(b"", [])))
    add("cr_empty_sigalgs_then_full_flight", P2, lambda adv: with_cr_then_finish(
        adv, R.CertificateRequest(b"", [(R.EXT_SIGNATURE_ALGORITHMS, R.vec(2, b""))])))

    # a client that HAS a certificate (non-default configuration) must pick a signature scheme from the
    # server's list that fits its key - or answer without one; lists that fit / do not fit / are hostile
    sa_lists = [("ed25519_only", [R.SIG_ED25519]), ("ecdsa_only", [R.SIG_ECDSA_SECP256R1_SHA256, R.SIG_ECDSA_SECP384R1_SHA384]),
                ("rsa_pss_only", [R.SIG_RSA_PSS_RSAE_SHA256]), ("rsa_pkcs1_only", [R.SIG_RSA_PKCS1_SHA256]),
                ("ed448_only", [R.SIG_ED448]), ("unknown_only", [0x9999]),
                ("all", [R.SIG_ED25519, R.SIG_ECDSA_SECP256R1_SHA256, R.SIG_RSA_PSS_RSAE_SHA256, R.SIG_RSA_PKCS1_SHA256])]
    for ckt in ("ed25519", "rsa2048", "p256"):
        for nm, lst in sa_lists:
            add("cr_client_has_%s_sigalgs_%s_then_full_flight" % (ckt, nm), P2,
                lambda adv, lst=lst: with_cr_then_finish(adv, R.CertificateRequest(b"", [(R.EXT_SIGNATURE_ALGORITHMS, SA(lst))])),
                cfg={"c_cert": ckt})
        add("cr_client_has_%s_no_sigalgs_then_full_flight" % ckt, P2,
            lambda adv: with_cr_then_finish(adv, R.CertificateRequest(b"", [])), cfg={"c_cert": ckt})
        add("cr_client_has_%s_empty_sigalgs_then_full_flight" % ckt, P2,
            lambda adv: with_cr_then_finish(adv, R.CertificateRequest(b"", [(R.EXT_SIGNATURE_ALGORITHMS, R.vec(2, b""))])),
            cfg={"c_cert": ckt})

    def cert(entries, ctx=b""):
        return send("handshake", lambda a: R.Certificate(ctx, entries(a) if callable(entries) else entries))
    add("cert_empty_list", P2, cert([]))
    add("cert_garbage_der", P2, cert([(GARBAGE_DER, [])]))
    add("cert_empty_der", P2, cert([(b"", [])]))
    add("cert_one_byte_der", P2, cert([(b"\x30", [])]))
    add("cert_truncated_der", P2, cert(lambda a: [(a.tls.cert_chain[0][:100], [])]))
    add("cert_der_trailing_garbage", P2, cert(lambda a: [(a.tls.cert_chain[0] + b"\x00\x00", [])]))
    add("cert_valid_then_garbage_chain", P2, cert(lambda a: [(a.tls.cert_chain[0], []), (GARBAGE_DER, [])]))
    add("cert_valid_then_empty_chain_entry", P2, cert(lambda a: [(a.tls.cert_chain[0], []), (b"", [])]))
    add("cert_x25519_subject_key", P2, cert(lambda a: [(odd_certificates()["x25519"], [])]))
    add("cert_context_nonempty", P2, cert(lambda a: [(a.tls.cert_chain[0], [])], ctx=b"ctx"))
    add("cert_entry_unknown_extension", P2, cert(lambda a: [(a.tls.cert_chain[0], [(0xABCD, b"x")])]))
    add("cert_entry_status_request", P2, cert(lambda a: [(a.tls.cert_chain[0], [(5, b"\x01\x00\x00\x00")])]))
    add("cert_100_copies", P2, cert(lambda a: [(a.tls.cert_chain[0], [])] * 100))
    add("cert_zero_length", P2, send("handshake", lambda a: hs(R.HT_CERTIFICATE, b"")))
    add("cert_list_length_lies", P2, send("handshake", lambda a: hs(R.HT_CERTIFICATE, b"\x00" + b"\x00\xff\xff" + b"\x00\x00\x03abc\x00\x00")))
    add("cert_entry_length_lies", P2, send("handshake", lambda a: hs(R.HT_CERTIFICATE, b"\x00" + R.vec(3, b"\x00\xff\xffabc\x00\x00"))))
    add("cert_declared_2e24m1", P2, send("handshake", lambda a: lying_header(R.HT_CERTIFICATE, 0xFFFFFF, a.make("CERT")[4:])))
    add("cert_x25519_then_cv", P2, lambda adv: _cert_then_cv(adv, [(odd_certificates()["x25519"], [])], R.SIG_ED25519, bytes(64)))
    for label, fn in WRONG_TYPES:
        add("after_ee_" + label, P2, send("handshake", fn))
    add("after_ee_wrongtype_certificate_verify", P2, send("handshake", lambda a: a.make("CV")))
    add("after_ee_wrongtype_encrypted_extensions", P2, send("handshake", lambda a: a.ee()))

    # ---- CertificateVerify menu (prefix SH EE CERT) x leaf key types
    P3 = ["SH", "EE", "CERT"]
    schemes = [("ed25519", R.SIG_ED25519, 64), ("ed448", R.SIG_ED448, 114), ("ecdsa_p256", R.SIG_ECDSA_SECP256R1_SHA256, 70),
               ("ecdsa_p384", R.SIG_ECDSA_SECP384R1_SHA384, 102), ("ecdsa_p521", R.SIG_ECDSA_SECP521R1_SHA512, 138),
               ("rsa_pss_256", R.SIG_RSA_PSS_RSAE_SHA256, 256), ("rsa_pss_384", R.SIG_RSA_PSS_RSAE_SHA384, 256),
               ("rsa_pss_512", R.SIG_RSA_PSS_RSAE_SHA512, 256), ("rsa_pkcs1_256", R.SIG_RSA_PKCS1_SHA256, 256),
               ("rsa_pkcs1_sha1", 0x0201, 256), ("rsa_pss_pss_256", 0x0809, 256), ("dsa_sha1", 0x0202, 46),
               ("ecdsa_sha1", 0x0203, 70), ("unknown_9999", 0x9999, 64), ("zero", 0x0000, 64)]
    for kt in ("ed25519", "p256", "rsa2048", "ed448", "p384"):
        for name, scheme, ln in schemes:
            add("cv_%s_leaf_scheme_%s" % (kt, name), P3,
                send("handshake", lambda a, scheme=scheme, ln=ln: R.CertificateVerify(scheme, bytes(range(1, 256)) [:ln] if ln < 255 else bytes(ln))),
                chain=kt)
        add("cv_%s_leaf_signature_empty" % kt, P3, send("handshake", lambda a: R.CertificateVerify(R.default_scheme(a.tls.leaf_key), b"")), chain=kt)
        add("cv_%s_leaf_signature_short" % kt, P3, send("handshake", lambda a: R.parse_message(a.make("CV")).__class__(
            R.default_scheme(a.tls.leaf_key), R.parse_message(a.make("CV")).signature[:-1])), chain=kt)
        add("cv_%s_leaf_signature_long" % kt, P3, send("handshake", lambda a: R.CertificateVerify(
            R.default_scheme(a.tls.leaf_key), R.parse_message(a.make("CV")).signature + b"\x00")), chain=kt)
        add("cv_%s_leaf_signature_65535" % kt, P3, send("handshake", lambda a: R.CertificateVerify(
            R.default_scheme(a.tls.leaf_key), bytes(65535))), chain=kt)
        add("cv_%s_leaf_other_key" % kt, P3, send("handshake", lambda a: a.make("CV", key="spare")), chain=kt)
    add("cv_zero_length", P3, send("handshake", lambda a: hs(R.HT_CERTIFICATE_VERIFY, b"")))
    add("cv_scheme_only", P3, send("handshake", lambda a: hs(R.HT_CERTIFICATE_VERIFY, U16(R.SIG_ED25519))))
    add("cv_signature_length_lies", P3, send("handshake", lambda a: hs(R.HT_CERTIFICATE_VERIFY, U16(R.SIG_ED25519) + U16(200) + bytes(64))))
    add("cv_trailing_garbage", P3, send("handshake", lambda a: hs(R.HT_CERTIFICATE_VERIFY, a.make("CV")[4:] + b"\x00")))
    for label, fn in WRONG_TYPES:
        add("after_cert_" + label, P3, send("handshake", fn))
    add("after_cert_wrongtype_certificate", P3, send("handshake", lambda a: a.make("CERT")))

    # ---- Finished menu (prefix SH EE CERT CV)
    P4 = ["SH", "EE", "CERT", "CV"]
    for n in (0, 1, 31, 32, 47, 49, 64, 255):
        add("fin_length_%d" % n, P4, send("handshake", lambda a, n=n: hs(R.HT_FINISHED, (a.make("FIN")[4:] + bytes(255))[:n])))
    add("fin_bad_mac", P4, send("handshake", lambda a: a.make("FIN", corrupt=True)))
    add("fin_declared_2e24m1", P4, send("handshake", lambda a: lying_header(R.HT_FINISHED, 0xFFFFFF, a.make("FIN")[4:])))
    add("fin_in_initial_epoch", P4, send("initial", lambda a: a.make("FIN")))
    for label, fn in WRONG_TYPES[2:]:
        add("after_cv_" + label, P4, send("handshake", fn))

    # ---- post-handshake menu (prefix full handshake; epoch 1rtt)
    P5 = ["SH", "EE", "CERT", "CV", "FIN"]

    def nst(**kw):
        return send("1rtt", lambda a: a.make("NST", **kw))

    def nst_ext(exts, **kw):
        def build(a):
            m = R.parse_message(a.make("NST", **kw))
            m.extensions = exts
            return m
        return send("1rtt", build)
    add("nst_plain", P5, nst())
    add("nst_lifetime_0", P5, nst(lifetime=0))
    add("nst_lifetime_max", P5, nst(lifetime=0xFFFFFFFF))
    add("nst_lifetime_8days", P5, nst(lifetime=691200))
    add("nst_age_add_max", P5, nst(age_add=0xFFFFFFFF))
    add("nst_empty_nonce", P5, nst(nonce=b""))
    add("nst_nonce_255", P5, nst(nonce=bytes(255)))
    add("nst_empty_ticket", P5, nst(ticket=b""))
    add("nst_ticket_65535", P5, nst(ticket=bytes(65535)))
    add("nst_max_early_data_0", P5, nst(max_early_data_size=0))
    add("nst_max_early_data_ffffffff", P5, nst(max_early_data_size=0xFFFFFFFF))
    add("nst_max_early_data_other", P5, nst(max_early_data_size=16384))
    add("nst_early_data_empty_payload", P5, nst_ext([(R.EXT_EARLY_DATA, b"")]))
    add("nst_early_data_3bytes", P5, nst_ext([(R.EXT_EARLY_DATA, b"\x00\x00\x01")]))
    add("nst_early_data_5bytes", P5, nst_ext([(R.EXT_EARLY_DATA, b"\xff\xff\xff\xff\x00")]))
    add("nst_early_data_dup", P5, nst_ext([(R.EXT_EARLY_DATA, b"\xff\xff\xff\xff")] * 2))
    add("nst_unknown_extension", P5, nst_ext([(0xABCD, b"xyz")]))
    add("nst_200_unknown_extensions", P5, nst_ext([(0xA000 + i, b"") for i in range(200)]))
    add("nst_tp_extension", P5, nst_ext([(R.EXT_QUIC_TRANSPORT_PARAMETERS, b"\x01")]))
    add("nst_zero_length", P5, send("1rtt", lambda a: hs(R.HT_NEW_SESSION_TICKET, b"")))
    add("nst_truncated", P5, send("1rtt", lambda a: hs(R.HT_NEW_SESSION_TICKET, a.make("NST")[4:14])))
    add("nst_ticket_length_lies", P5, send("1rtt", lambda a: hs(R.HT_NEW_SESSION_TICKET, bytes(8) + b"\x00" + U16(500) + b"abc" + U16(0))))
    add("nst_declared_2e24m1", P5, send("1rtt", lambda a: lying_header(R.HT_NEW_SESSION_TICKET, 0xFFFFFF, a.make("NST")[4:])))
    add("nst_60_tickets", P5, lambda adv: adv.send_tls("1rtt", b"".join(
        adv.make("NST", ticket=b"t%03d" % i, nonce=bytes([i])) for i in range(60))))
    add("nst_in_handshake_epoch", P5, send("handshake", lambda a: a.make("NST")))
    add("nst_in_initial_epoch", P5, send("initial", lambda a: a.make("NST")))
    for label, fn in WRONG_TYPES:
        add("post_handshake_" + label, P5, send("1rtt", fn))
    add("post_handshake_key_update_requested", P5, send("1rtt", lambda a: R.KeyUpdate(1).encode()))
    add("post_handshake_key_update_2", P5, send("1rtt", lambda a: R.KeyUpdate(2).encode()))
    add("post_handshake_key_update_empty", P5, send("1rtt", lambda a: hs(R.HT_KEY_UPDATE, b"")))
    add("post_handshake_certificate_request", P5, send("1rtt", lambda a: a.make("CR", context=b"post")))
    add("post_handshake_server_hello", P5, send("1rtt", lambda a: a.make("SH")))
    add("post_handshake_hello_request", P5, send("1rtt", lambda a: hs(0, b"")))
    add("post_handshake_zero_length_unknown", P5, send("1rtt", lambda a: hs(99, b"")))
    add("post_handshake_declared_2e24m1_unknown", P5, send("1rtt", lambda a: lying_header(99, 0xFFFFFF, b"abc")))
    add("post_handshake_partial_header", P5, send("1rtt", lambda a: b"\x04\x00"))
    # other configurations of the victim
    add("v2_sh_key_share_unknown_group", [], sh(setext(R.EXT_KEY_SHARE, R.ext_key_share_server(0x9999, bytes(32)))),
        cfg={"version": Q.V2})
    add("v2_ee_tp_version_info_chosen_other", P1, send("handshake", lambda a: a.ee(
        tp_items=a.tp + [(Q.TP_VERSION_INFORMATION, Q.V1.to_bytes(4, "big") + Q.V1.to_bytes(4, "big"))])), cfg={"version": Q.V2})
    add("v2_full_handshake_nst", P5, nst(), cfg={"version": Q.V2})
    return cases


def _cert_then_cv(adv, entries, scheme, sig):
    raw = R.Certificate(b"", entries).encode()
    adv.send_tls("handshake", raw)
    if adv.victim.closing:
        return
    adv.accepted(raw)
    adv.send_tls("handshake", R.CertificateVerify(scheme, sig).encode())


# ------------------------------------------------------ cases against a real SERVER
def client_adv_cases():
    """list of (label, dict(stage=..., reqcert=bool, cfg=...), fn(adv) -> None)."""
    cases = []

    def add(label, stage, fn, reqcert=False, cfg=None):
        cases.append((label, {"stage": stage, "reqcert": reqcert, "cfg": cfg or {}}, fn))

    def hello(mod):
        def fn(adv):
            m = adv.ch()
            r = mod(adv, m)
            raw = r if isinstance(r, bytes) else (m if r is None else r).encode()
            adv.hello(raw=raw)
        return fn

    def exts(f):
        return hello(lambda a, m: setattr(m, "extensions", f(a, m.extensions)))

    def setext(t, data):
        return exts(lambda a, e: ext_replace(e, t, data(a) if callable(data) else data))

    known = [("key_share", R.EXT_KEY_SHARE), ("supported_versions", R.EXT_SUPPORTED_VERSIONS),
             ("signature_algorithms", R.EXT_SIGNATURE_ALGORITHMS), ("supported_groups", R.EXT_SUPPORTED_GROUPS),
             ("psk_key_exchange_modes", R.EXT_PSK_KEY_EXCHANGE_MODES), ("server_name", R.EXT_SERVER_NAME),
             ("alpn", R.EXT_ALPN), ("transport_parameters", R.EXT_QUIC_TRANSPORT_PARAMETERS)]
    for name, t in known:
        add("ch_without_" + name, "hello", exts(lambda a, e, t=t: ext_without(e, t)))
        add("ch_dup_" + name, "hello", exts(lambda a, e, t=t: ext_dup(e, t)))
        add("ch_empty_payload_" + name, "hello", setext(t, b""))
        add("ch_one_byte_payload_" + name, "hello", setext(t, b"\x00"))
        add("ch_length_lies_" + name, "hello", setext(t, b"\xff\xff\x00"))
    add("ch_no_extensions", "hello", exts(lambda a, e: []))
    add("ch_unknown_extension", "hello", exts(lambda a, e: e + [(0xABCD, b"xyz")]))
    add("ch_300_unknown_extensions", "hello", exts(lambda a, e: e + [(0xA000 + i, b"") for i in range(300)]))
    add("ch_8k_unknown_extension", "hello", exts(lambda a, e: e + [(0xABCD, bytes(8000))]))
    add("ch_grease_everywhere", "hello", hello(lambda a, m: (setattr(m, "cipher_suites", [0x0A0A] + m.cipher_suites),
                                                             m.extensions.insert(0, (0x1A1A, b"")), None)[2]))
    # lists
    add("ch_cipher_suites_empty", "hello", hello(lambda a, m: setattr(m, "cipher_suites", [])))
    add("ch_cipher_suites_unknown_only", "hello", hello(lambda a, m: setattr(m, "cipher_suites", [0x9999, 0x00FF])))
    add("ch_cipher_suites_3000", "hello", hello(lambda a, m: setattr(m, "cipher_suites", [0x1301] + [0x2000 + i for i in range(3000)])))
    add("ch_compression_empty", "hello", hello(lambda a, m: setattr(m, "legacy_compression_methods", [])))
    add("ch_compression_1", "hello", hello(lambda a, m: setattr(m, "legacy_compression_methods", [1])))
    add("ch_compression_255_methods", "hello", hello(lambda a, m: setattr(m, "legacy_compression_methods", list(range(255)))))
    add("ch_session_id_32", "hello", hello(lambda a, m: setattr(m, "legacy_session_id", bytes(32))))
    add("ch_session_id_33", "hello", hello(lambda a, m: setattr(m, "legacy_session_id", bytes(33))))
    add("ch_session_id_255", "hello", hello(lambda a, m: setattr(m, "legacy_session_id", bytes(255))))
    for ver in (0x0304, 0x0301, 0x0000):
        add("ch_legacy_version_%04x" % ver, "hello", hello(lambda a, m, ver=ver: setattr(m, "legacy_version", ver)))
    # key_share
    for label, group, ke in key_share_menu():
        add("ch_key_share_only_" + label, "hello", setext(R.EXT_KEY_SHARE, R.ext_key_share_client([(group, ke)])))
        add("ch_key_share_first_" + label, "hello", setext(R.EXT_KEY_SHARE, lambda a, group=group, ke=ke: R.ext_key_share_client(
            [(group, ke), (R.GROUP_X25519, R.dh_public_bytes(a.tls.dh_privates[R.GROUP_X25519]))])))
    add("ch_key_share_empty_list", "hello", setext(R.EXT_KEY_SHARE, R.vec(2, b"")))
    add("ch_key_share_same_group_twice", "hello", setext(R.EXT_KEY_SHARE, lambda a: R.ext_key_share_client(
        [(R.GROUP_X25519, R.dh_public_bytes(a.tls.dh_privates[R.GROUP_X25519]))] * 2)))
    add("ch_key_share_entry_length_lies", "hello", setext(R.EXT_KEY_SHARE, R.vec(2, U16(0x1D) + U16(64) + bytes(32))))
    add("ch_key_share_100_entries", "hello", setext(R.EXT_KEY_SHARE, R.ext_key_share_client([(0x3000 + i, b"x") for i in range(100)])))
    # supported_versions
    for label, data in (("empty_list", R.vec(1, b"")), ("tls12_only", R.vec(1, U16(0x0303))), ("odd_length", R.vec(1, b"\x03\x04\x03")),
                        ("garbage", b"\xff\x03\x04"), ("unknown_only", R.vec(1, U16(0x0305) + U16(0x7F1C))),
                        ("tls13_last_of_100", R.vec(1, b"".join(U16(0x4000 + i) for i in range(100)) + U16(0x0304)))):
        add("ch_supported_versions_" + label, "hello", setext(R.EXT_SUPPORTED_VERSIONS, data))
    # signature algorithms / groups
    add("ch_signature_algorithms_empty_list", "hello", setext(R.EXT_SIGNATURE_ALGORITHMS, R.vec(2, b"")))
    add("ch_signature_algorithms_unknown_only", "hello", setext(R.EXT_SIGNATURE_ALGORITHMS, R.ext_signature_algorithms([0x9999])))
    add("ch_signature_algorithms_odd", "hello", setext(R.EXT_SIGNATURE_ALGORITHMS, R.vec(2, b"\x08\x07\x04")))
    add("ch_supported_groups_empty_list", "hello", setext(R.EXT_SUPPORTED_GROUPS, R.vec(2, b"")))
    add("ch_supported_groups_unknown_only", "hello", setext(R.EXT_SUPPORTED_GROUPS, R.ext_supported_groups([0x9999])))
    add("ch_psk_modes_empty", "hello", setext(R.EXT_PSK_KEY_EXCHANGE_MODES, R.vec(1, b"")))
    add("ch_psk_modes_unknown", "hello", setext(R.EXT_PSK_KEY_EXCHANGE_MODES, R.vec(1, b"\x07\x09")))
    # SNI
    sni = [("empty_name", R.ext_server_name(b"")), ("non_ascii", R.ext_server_name(b"\xff\xfe.example")),
           ("nul", R.ext_server_name(b"local\x00host")), ("utf8", R.ext_server_name("héllo".encode())),
           ("64k", R.ext_server_name(b"a" * 60000)), ("ip_literal", R.ext_server_name(b"127.0.0.1")),
           ("unknown_name_type", R.vec(2, b"\x07" + R.vec(2, b"localhost"))), ("empty_list", R.vec(2, b"")),
           ("two_names", R.vec(2, b"\x00" + R.vec(2, b"a") + b"\x00" + R.vec(2, b"b"))),
           ("name_length_lies", R.vec(2, b"\x00" + U16(500) + b"abc")), ("type_only", R.vec(2, b"\x00"))]
    for label, data in sni:
        add("ch_sni_" + label, "hello", setext(R.EXT_SERVER_NAME, data))
    # ALPN
    alpn = [("empty_list", R.vec(2, b"")), ("empty_name", R.vec(2, R.vec(1, b""))), ("non_ascii", R.ext_alpn([b"\xff\xfe"])),
            ("non_ascii_then_valid", R.ext_alpn([b"\xff\xfe", b"verif"])), ("not_supported", R.ext_alpn(["zz"])),
            ("nul", R.ext_alpn([b"ve\x00if"])), ("255_bytes", R.ext_alpn([b"a" * 255])), ("1000_names", R.ext_alpn([b"p%d" % i for i in range(1000)])),
            ("name_length_lies", R.vec(2, b"\x09ver"))]
    for label, data in alpn:
        add("ch_alpn_" + label, "hello", setext(R.EXT_ALPN, data))
    # PSK / early data
    fake_id = [(b"no-such-ticket", 0)]
    add("ch_psk_unknown_identity", "hello", exts(lambda a, e: e + [(R.EXT_PRE_SHARED_KEY, R.ext_pre_shared_key_client(fake_id, [bytes(32)]))]))
    add("ch_psk_not_last", "hello", exts(lambda a, e: [(R.EXT_PRE_SHARED_KEY, R.ext_pre_shared_key_client(fake_id, [bytes(32)]))] + e))
    add("ch_psk_no_binders", "hello", exts(lambda a, e: e + [(R.EXT_PRE_SHARED_KEY, R.ext_pre_shared_key_client(fake_id, []))]))
    add("ch_psk_no_identities", "hello", exts(lambda a, e: e + [(R.EXT_PRE_SHARED_KEY, R.ext_pre_shared_key_client([], [bytes(32)]))]))
    add("ch_psk_two_identities_one_binder", "hello", exts(lambda a, e: e + [(R.EXT_PRE_SHARED_KEY, R.ext_pre_shared_key_client(fake_id * 2, [bytes(32)]))]))
    add("ch_psk_short_binder", "hello", exts(lambda a, e: e + [(R.EXT_PRE_SHARED_KEY, R.ext_pre_shared_key_client(fake_id, [b"\x01"]))]))
    add("ch_psk_empty_payload", "hello", exts(lambda a, e: e + [(R.EXT_PRE_SHARED_KEY, b"")]))
    add("ch_psk_without_modes", "hello", exts(lambda a, e: ext_without(e, R.EXT_PSK_KEY_EXCHANGE_MODES) + [(R.EXT_PRE_SHARED_KEY, R.ext_pre_shared_key_client(fake_id, [bytes(32)]))]))
    add("ch_early_data_without_psk", "hello", exts(lambda a, e: e + [(R.EXT_EARLY_DATA, b"")]))
    add("ch_early_data_with_payload", "hello", exts(lambda a, e: e + [(R.EXT_EARLY_DATA, b"\x00\x00\x00\x01")]))
    add("ch_cookie", "hello", exts(lambda a, e: e + [(R.EXT_COOKIE, R.vec(2, b"cookie"))]))
    add("ch_compress_certificate", "hello", exts(lambda a, e: e + [(R.EXT_COMPRESS_CERTIFICATE, R.vec(1, U16(1)))]))
    add("ch_status_request", "hello", exts(lambda a, e: e + [(5, b"\x01\x00\x00\x00\x00")]))
    # transport parameters sent by a client
    probe = Q.client_tp()
    for i, (label, _) in enumerate(tp_menu(probe, "client")):
        def data(a, i=i):
            v = tp_menu(a.tp, "client")[i][1]
            return v if isinstance(v, bytes) else Q.enc_tp(v)
        add("ch_" + label, "hello", setext(R.EXT_QUIC_TRANSPORT_PARAMETERS, data))
    add("ch_tp_draft_codepoint", "hello", exts(lambda a, e: ext_without(e, R.EXT_QUIC_TRANSPORT_PARAMETERS) + [(0xFFA5, Q.enc_tp(a.tp))]))
    # raw encodings
    add("ch_zero_length", "hello", hello(lambda a, m: hs(R.HT_CLIENT_HELLO, b"")))
    add("ch_declared_2e24m1", "hello", hello(lambda a, m: lying_header(R.HT_CLIENT_HELLO, 0xFFFFFF, m.body())))
    add("ch_declared_too_short", "hello", hello(lambda a, m: lying_header(R.HT_CLIENT_HELLO, 60, m.body())))
    add("ch_truncated_34", "hello", hello(lambda a, m: hs(R.HT_CLIENT_HELLO, m.body()[:34])))
    add("ch_truncated_in_extensions", "hello", hello(lambda a, m: hs(R.HT_CLIENT_HELLO, m.body()[:-5])))
    add("ch_trailing_garbage", "hello", hello(lambda a, m: hs(R.HT_CLIENT_HELLO, m.body() + b"\x00\x00")))
    add("ch_extensions_block_length_lies", "hello", hello(lambda a, m: hs(
        R.HT_CLIENT_HELLO, m.body()[:-len(R.encode_extensions(m.extensions))] + U16(0xFFF0) + R.encode_extensions(m.extensions)[2:])))
    add("ch_twice", "hello", hello(lambda a, m: m.encode() * 2))
    for label, fn in WRONG_TYPES[1:]:
        add("initial_" + label, "hello", lambda adv, fn=fn: adv.hello(raw=fn(adv)))
    add("initial_wrongtype_server_hello", "hello", lambda adv: adv.hello(raw=adv.make("server_hello")))
    add("initial_wrongtype_new_session_ticket", "hello", lambda adv: adv.hello(raw=adv.make("new_session_ticket")))

    # ---- client flight (Handshake packets) after a legal hello
    def flight(build, epoch="handshake"):
        def fn(adv):
            raw = build(adv)
            adv.send_tls(epoch, raw if isinstance(raw, bytes) else raw.encode())
        return fn
    for n in (0, 1, 31, 32, 47, 49, 255):
        add("cfin_length_%d" % n, "flight", flight(lambda a, n=n: hs(R.HT_FINISHED, (a.make("finished")[4:] + bytes(255))[:n])))
    add("cfin_bad_mac", "flight", flight(lambda a: a.make("finished", corrupt=True)))
    add("cfin_declared_2e24m1", "flight", flight(lambda a: lying_header(R.HT_FINISHED, 0xFFFFFF, a.make("finished")[4:])))
    add("cfin_in_initial_epoch", "flight", flight(lambda a: a.make("finished"), epoch="initial"))
    add("cfin_twice", "flight", flight(lambda a: a.make("finished") * 2))
    for label, fn in WRONG_TYPES:
        add("flight_" + label, "flight", flight(fn))
    add("flight_unrequested_certificate", "flight", flight(lambda a: a.make("certificate")))
    add("flight_unrequested_certificate_verify", "flight", flight(lambda a: a.make("certificate_verify")))
    add("flight_server_hello", "flight", flight(lambda a: a.make("server_hello")))
    add("flight_encrypted_extensions", "flight", flight(lambda a: a.make("encrypted_extensions")))
    add("flight_new_session_ticket", "flight", flight(lambda a: a.make("new_session_ticket")))
    add("flight_zero_length_unknown", "flight", flight(lambda a: hs(99, b"")))
    # ---- the same flight against a server that requested a certificate (test-only switch)
    RC = dict(reqcert=True)

    def ccert(entries, ctx=b""):
        return flight(lambda a: R.Certificate(ctx, entries(a) if callable(entries) else entries))
    add("ccert_empty_list", "flight", ccert([]), **RC)
    add("ccert_garbage_der", "flight", ccert([(GARBAGE_DER, [])]), **RC)
    add("ccert_empty_der", "flight", ccert([(b"", [])]), **RC)
    add("ccert_truncated_der", "flight", ccert(lambda a: [(a.tls.cert_chain[0][:100], [])]), **RC)
    add("ccert_valid_then_garbage", "flight", ccert(lambda a: [(a.tls.cert_chain[0], []), (GARBAGE_DER, [])]), **RC)
    add("ccert_x25519_subject_key", "flight", ccert(lambda a: [(odd_certificates()["x25519"], [])]), **RC)
    add("ccert_context_nonempty", "flight", ccert(lambda a: [(a.tls.cert_chain[0], [])], ctx=b"ctx"), **RC)
    add("ccert_zero_length", "flight", flight(lambda a: hs(R.HT_CERTIFICATE, b"")), **RC)
    add("ccert_finished_instead", "flight", flight(lambda a: a.make("finished")), **RC)

    def ccv(build):
        def fn(adv):
            adv.legal("certificate")
            if adv.victim.closing:
                return
            raw = build(adv)
            adv.send_tls("handshake", raw if isinstance(raw, bytes) else raw.encode())
        return fn
    for name, scheme, ln in (("ed25519_short", R.SIG_ED25519, 63), ("ed25519_empty", R.SIG_ED25519, 0), ("ecdsa_p256", R.SIG_ECDSA_SECP256R1_SHA256, 70),
                             ("rsa_pss_256", R.SIG_RSA_PSS_RSAE_SHA256, 256), ("rsa_pkcs1_sha1", 0x0201, 256), ("ed448", R.SIG_ED448, 114),
                             ("unknown_9999", 0x9999, 64)):
        add("ccv_scheme_" + name, "flight", ccv(lambda a, scheme=scheme, ln=ln: R.CertificateVerify(scheme, bytes(ln))), **RC)
    add("ccv_other_key", "flight", ccv(lambda a: a.make("certificate_verify", key="spare")), **RC)
    add("ccv_zero_length", "flight", ccv(lambda a: hs(R.HT_CERTIFICATE_VERIFY, b"")), **RC)
    add("ccv_x25519_cert_then_cv", "flight", lambda adv: (adv.send_tls("handshake", R.Certificate(b"", [(odd_certificates()["x25519"], [])]).encode()),
                                                          None if adv.victim.closing else adv.send_tls("handshake", R.CertificateVerify(R.SIG_ED25519, bytes(64)).encode()))[1], **RC)
    # ---- post-handshake (1-RTT) towards a server
    def post(build):
        def fn(adv):
            raw = build(adv)
            adv.send_tls("1rtt", raw if isinstance(raw, bytes) else raw.encode())
        return fn
    for label, fn in WRONG_TYPES:
        add("post_handshake_" + label, "post", post(fn))
    add("post_handshake_new_session_ticket", "post", post(lambda a: a.make("new_session_ticket")))
    add("post_handshake_key_update_requested", "post", post(lambda a: R.KeyUpdate(1).encode()))
    add("post_handshake_certificate", "post", post(lambda a: a.make("certificate")))
    add("post_handshake_zero_length_unknown", "post", post(lambda a: hs(99, b"")))
    add("post_handshake_declared_2e24m1", "post", post(lambda a: lying_header(99, 0xFFFFFF, b"abc")))
    add("post_handshake_in_handshake_epoch", "post", lambda adv: adv.send_tls("handshake", R.KeyUpdate(0).encode()))
    add("v2_ch_key_share_only_unknown_group", "hello", setext(R.EXT_KEY_SHARE, R.ext_key_share_client([(0x9999, bytes(32))])),
        cfg={"version": Q.V2})
    add("v2_ch_tp_version_info_chosen_other", "hello", setext(R.EXT_QUIC_TRANSPORT_PARAMETERS, lambda a: Q.enc_tp(
        a.tp + [(Q.TP_VERSION_INFORMATION, Q.V1.to_bytes(4, "big") + Q.V1.to_bytes(4, "big") + Q.V2.to_bytes(4, "big"))])), cfg={"version": Q.V2})
    return cases


# ------------------------------------------------------------------ split cases
SPLIT_TARGETS_SERVER_ADV = [("SH", [], "initial"), ("EE", ["SH"], "handshake"), ("CERT", ["SH", "EE"], "handshake"),
                            ("FIN", ["SH", "EE", "CERT", "CV"], "handshake"), ("NST", ["SH", "EE", "CERT", "CV", "FIN"], "1rtt")]


def split_cases(tier, seed):
    """(label, role, params): every boundary of representative messages, three delivery shapes."""
    out = []
    modes = ("inorder", "reversed", "two_datagrams")
    a = Q.QuicServerAdversary()
    lens = {}
    for label, prefix, epoch in SPLIT_TARGETS_SERVER_ADV:
        b = Q.QuicServerAdversary().prefix(prefix)
        lens[label] = len(b.make(label))
    c = Q.QuicClientAdversary()
    lens["CH"] = len(c.make("client_hello"))
    lens["CFIN"] = 52
    for label, prefix, epoch in SPLIT_TARGETS_SERVER_ADV:
        for cut in range(1, lens[label]):
            for mi, mode in enumerate(modes):
                if tier == "quick" and mode != "inorder" and (cut + mi) % 8 != seed % 8:
                    continue
                out.append(("split_%s_at_%d_%s" % (label, cut, mode), "client", {"target": label, "cut": cut, "mode": mode}))
    for label in ("CH", "CFIN"):
        for cut in range(1, lens[label]):
            for mi, mode in enumerate(modes):
                if tier == "quick" and mode != "inorder" and (cut + mi) % 8 != seed % 8:
                    continue
                out.append(("split_%s_at_%d_%s" % (label, cut, mode), "server", {"target": label, "cut": cut, "mode": mode}))
    return out


def run_split(params):
    target, cut, mode = params["target"], params["cut"], params["mode"]
    kw = {"split": [cut], "reverse": mode == "reversed", "separate": mode == "two_datagrams"}
    if target in ("CH", "CFIN"):
        adv = Q.QuicClientAdversary()
        if target == "CH":
            adv.hello(**kw)
            if not adv.victim.closing and adv.server_flight is not None:
                adv.legal("finished")
            expect_done = True
        else:
            adv.hello()
            raw = adv.make("finished")
            adv.send_tls("handshake", raw, **kw)
            expect_done = True
        return adv, expect_done
    prefix, epoch = [(p, e) for l, p, e in SPLIT_TARGETS_SERVER_ADV if l == target][0]
    adv = Q.QuicServerAdversary().prefix(prefix)
    raw = adv.make(target)
    adv.send_tls(epoch, raw, **kw)
    if not adv.victim.closing:
        adv.accepted(raw)
        rest = {"SH": ["EE", "CERT", "CV", "FIN"], "EE": ["CERT", "CV", "FIN"], "CERT": ["CV", "FIN"], "FIN": [], "NST": []}[target]
        for lab in rest:
            adv.legal(lab)
    return adv, True


# ----------------------------------------------------------------------- running
_CASES = {}


def all_cases(tier, seed):
    key = (tier, seed)
    if key not in _CASES:
        lst = []
        for label, meta, fn in server_adv_cases():
            lst.append((label, "client", ("menu_server_adv", meta, fn)))
        for label, meta, fn in client_adv_cases():
            lst.append((label, "server", ("menu_client_adv", meta, fn)))
        # every menu case again with a second input arriving before the victim's first transmit
        for label, role, (kind, meta, fn) in list(lst):
            for second in ("same", "legal"):
                lst.append(("%s|then_%s_held" % (label, second), role, (kind, dict(meta, second=second), fn)))
        for label, role, params in split_cases(tier, seed):
            lst.append((label, role, ("split", params, None)))
        _CASES[key] = lst
    return _CASES[key]


def classify(exc):
    tb = traceback.extract_tb(exc.__traceback__)
    inner = entry = None
    for fr in tb:
        if "/aioquic/" in fr.filename:
            if entry is None:
                entry = fr.name
            inner = "%s:%s" % (fr.filename.split("/aioquic/")[-1], fr.name)
    return entry, inner


def execute(case):
    """Run one case on a fresh endpoint.  Returns (adv, handshake_expected_complete)."""
    label, role, (kind, meta, fn) = case
    if kind == "split":
        return run_split(meta)
    second = meta.get("second")
    if kind == "menu_server_adv":
        adv = Q.QuicServerAdversary(cfg=meta["cfg"], chain=meta["chain"])
        adv.prefix(meta["prefix"])
        if second:
            return _held(adv, fn, second, next((x for x in ("SH", "EE", "CERT", "CV", "FIN") if x not in meta["prefix"]), None))
        fn(adv)
        return adv, False
    adv = Q.QuicClientAdversary(cfg=meta["cfg"], server_cls=_ReqCertServer if meta["reqcert"] else None)
    if meta["stage"] in ("flight", "post"):
        adv.hello()
        if adv.victim.closing or adv.server_flight is None:
            raise core.HarnessError("server victim refused the legal ClientHello: %r" % (adv.victim.terminated,))
    if meta["stage"] == "post":
        adv.legal("finished")
        if adv.victim.closing or not adv.victim.handshake_completed:
            raise core.HarnessError("server victim did not complete the legal handshake")
    if second:
        return _held(adv, fn, second, "finished" if meta["stage"] == "flight" and not meta["reqcert"] else None)
    fn(adv)
    return adv, False


class _SecondNotBuilt(Exception):
    pass


def _held(adv, fn, second, legal_next):
    """The case's input, then - BEFORE the victim's caller has transmitted anything (datagrams arriving back to back) -
    a second input in a packet of its own: the same input again, or the legal message of that stage."""
    adv.victim.hold = True
    try:
        fn(adv)
        try:
            if second == "same":
                fn(adv)
            elif legal_next is not None:
                adv.legal(legal_next)
            else:
                raise _SecondNotBuilt()
        except core.HarnessError:
            raise _SecondNotBuilt()
        except _SecondNotBuilt:
            raise
        except Exception as e:  # noqa
            if classify(e)[1] is None:
                raise _SecondNotBuilt()   # the adversary's own bookkeeping could not produce a second message
            raise
    finally:
        adv.victim.hold = False
    adv.victim.pump()
    return adv, False


def run_case(case):
    """-> dict(outcome=..., code=..., viol=None|(sig, what))"""
    label, role, _ = case
    adv = None
    try:
        try:
            adv, expect_done = execute(case)
        except _SecondNotBuilt:
            return {"outcome": "second_not_built", "code": None, "viol": None}
        v = adv.victim
        closed_before = v.closing
        v.drive_to_end()
        if closed_before and v.terminated is None:
            return {"outcome": "never_terminated", "code": None,
                    "viol": ({"monitor": "close.never_terminated", "role": role, "input": label},
                             "closing after TLS input %s but no ConnectionTerminated after 8 timers" % label)}
        if v.terminated is not None:
            return {"outcome": "closed", "code": v.terminated.error_code, "viol": None,
                    "reason": v.terminated.reason_phrase}
        return {"outcome": "completed" if v.handshake_completed else "open", "code": None, "viol": None}
    except core.HarnessError:
        raise
    except Exception as e:  # noqa
        entry, inner = classify(e)
        if inner is None:
            raise
        # re-derive on a fresh endpoint before reporting
        try:
            try:
                adv2, _ = execute(case)
                adv2.victim.drive_to_end()
            except _SecondNotBuilt:
                pass
            again = None
        except core.HarnessError:
            raise
        except Exception as e2:  # noqa
            again = (type(e2).__name__, classify(e2)[1])
        if again != (type(e).__name__, inner):
            raise core.HarnessError("exception %r on %s did not reproduce on a fresh endpoint (%r)" % (e, label, again))
        sig = {"monitor": "api_exception", "exc": type(e).__name__, "where": inner, "entry": entry,
               "role": role, "input": input_class(label)}
        return {"outcome": "exception", "code": type(e).__name__,
                "viol": (sig, "%s: %s in %s (API entry %s) when a real %s received TLS input %s from a key-holding peer"
                         % (type(e).__name__, e, inner, entry, role, label))}


FAMILIES = ("sh_key_share", "ch_key_share", "sh_supported_versions", "ch_supported_versions", "sh_cipher_suite",
            "sh_session_id", "ch_session_id", "sh_legacy_version", "ch_legacy_version", "sh_psk", "ch_psk",
            "sh_extension", "hrr", "ee_alpn", "ch_alpn", "ch_sni", "ee_tp", "ch_tp", "cr", "ccert", "cert", "ccv", "cv",
            "cfin", "fin", "nst", "ch_without", "ch_dup", "ch_empty_payload", "ch_one_byte_payload", "ch_length_lies",
            "ch_cipher_suites", "ch_compression", "ch_signature_algorithms", "ch_supported_groups", "ch_psk_modes",
            "ch_early_data", "post_handshake", "flight", "initial_wrongtype", "after_sh", "after_ee", "after_cert",
            "after_cv")


def input_class(label):
    """Normalised input class of a case label: the message + field family, e.g. tls:sh_key_share
    (variants of one field, split positions and delivery shapes collapse)."""
    if label.startswith("split_"):
        return "tls:" + "_".join(label.split("_")[:2])
    if label.startswith("v2_"):
        label = label[3:]
    for f in FAMILIES:
        if label == f or label.startswith(f + "_"):
            return "tls:" + f
    return "tls:" + label


def run_chunk(args):
    tier, seed, lo, hi = args
    cases = all_cases(tier, seed)[lo:hi]
    return [(lo + i, run_case(c)) for i, c in enumerate(cases)]


def run_tls(ctx, workers=None):
    """The TLS part of C05; records parts 'tls_client_victim', 'tls_server_victim', 'tls_split'."""
    cases = all_cases(ctx.tier, ctx.seed)
    step = 40
    tasks = [(ctx.tier, ctx.seed, lo, min(len(cases), lo + step)) for lo in range(0, len(cases), step)]
    results = core.pmap(run_chunk, tasks, workers=workers or core.NCPU)
    stats = {}
    outcomes = set()
    for chunk in results:
        for idx, r in chunk:
            label, role, (kind, _, _) = cases[idx]
            part = "tls_split" if kind == "split" else ("tls_client_victim" if role == "client" else "tls_server_victim")
            if "_held" in label:
                part += "_two_inputs_before_transmit"
            st = stats.setdefault(part, {"n": 0, "closed": {}, "open": 0, "completed": 0, "exceptions": 0})
            st["n"] += 1
            if r["outcome"] == "closed":
                st["closed"][str(r["code"])] = st["closed"].get(str(r["code"]), 0) + 1
            elif r["outcome"] in ("open", "completed"):
                st[r["outcome"]] += 1
            elif r["outcome"] == "second_not_built":
                st["second_not_built"] = st.get("second_not_built", 0) + 1
            else:
                st["exceptions"] += 1
            outcomes.add((part, r["outcome"], str(r["code"])))
            if r["viol"] is not None:
                sig, what = r["viol"]
                ctx.violation(sig, what, {"part": "tls", "case": label, "tier": ctx.tier, "seed": ctx.seed})
    for part, st in sorted(stats.items()):
        ctx.part(part, evaluations=st["n"], transitions=st["n"], states=st["n"],
                 closed=sum(st["closed"].values()), stayed_open=st["open"], completed=st["completed"],
                 raised=st["exceptions"], close_codes=st["closed"], second_not_built=st.get("second_not_built", 0),
                 distinct_nontrivial=len(st["closed"]) + bool(st["open"]) + bool(st["completed"]))
    if len(outcomes) < 6:
        raise core.HarnessError("tls part vacuous: %r" % sorted(outcomes))
    split_ok = stats.get("tls_split", {}).get("completed", 0)
    if split_ok < 20 and not (ctx.violations or ctx.known_hits):
        raise core.HarnessError("split part vacuous: only %d split handshakes completed" % split_ok)
    ctx.sample({"part": "tls", "case": cases[len(cases) // 5][0]})
    ctx.sample({"part": "tls", "case": cases[len(cases) // 2][0]})
    return len(cases)


def run(ctx):
    """Stand-alone wrapper (`./check C05_TLS`): only the TLS part."""
    pid, ctx.pid = ctx.pid, "C05"          # stand-alone runs honour C05's known findings
    ctx._known = ctx._load_known()
    ctx.pid = pid
    n = run_tls(ctx)
    ctx.cov["rule"] = ("every case of a menu of structurally valid, semantically hostile TLS messages (valid MACs over the "
                       "transcript) is sent by a QUIC-level key-holding adversary in correctly protected CRYPTO frames to a "
                       "fresh real endpoint, at depth 1 after the legal prefix; representative messages are split over two "
                       "CRYPTO frames at every byte boundary; oracle: receive_datagram returns and the API stays total")
    ctx.cov["exhaustive"] = True
    ctx.cov["bounds"] = {"cases": n}


def replay_tls(ctx, obj):
    rp = obj["replay"]
    cases = all_cases(rp.get("tier", "quick"), rp.get("seed", 0))
    match = [c for c in cases if c[0] == rp["case"]]
    if not match:
        print("case %r not in the menu" % rp["case"])
        return 2
    print("replaying TLS case %s against a fresh real %s" % (match[0][0], match[0][1]))
    try:
        adv, _ = execute(match[0])
        v = adv.victim
        print("  after the input: state %s, tls %s, terminated %r" % (v.conn._state.name, v.conn.tls.state.name if hasattr(v.conn, "tls") else None, v.terminated))
        v.drive_to_end()
        print("  after driving the API: terminated %r" % (v.terminated,))
    except Exception as e:  # noqa
        traceback.print_exc()
        print("VIOLATION property=C05 replay=(replayed): %s: %s" % (type(e).__name__, e))
        return 1
    print("no violation on replay")
    return 0


def replay(ctx, obj):
    return replay_tls(ctx, obj)
