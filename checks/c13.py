"""C13 - datagram size, Initial padding and anti-amplification.

World: NetSim; engine: deviation-bounded DFS (E1) over handshake / migration
schedules x max_datagram_size pairs x certificate chain sizes.  Oracle: SizeMonitor
(public observations only: lengths and destination addresses of datagrams_to_send()
output versus lengths and source addresses passed to receive_datagram()).
"""
from vlib import core, netcheck, netsim
from vlib.monitors import SizeMonitor

LEVEL = "model_checking"
V1, V2 = netsim.V1, netsim.V2


def W(sid, n, fin=False, g="hs"):
    return {"op": "w", "sid": sid, "n": n, "fin": fin, "g": g}


SCRIPTS = {
    "hs_only": {"c": [{"op": "ping", "uid": 1}]},
    "echo": {"c": [W(0, 3000, True)], "s": [W(0, 3000, True, g=("rxfin", 0))]},
    "early_data_like": {"c": [W(0, 12000, True, g="now")], "s": [W(1, 100, True)]},
    # the server's first flight is smaller than one datagram (small certificate / resumption) and is padded
    # at the datagram's end; the application then writes 0.5-RTT data that was NOT queued when the flight
    # was built: every byte of the first datagram, padding included, counts against the 3x budget
    "server_half_rtt": {"c": [W(0, 10)], "s": [W(1, 9000, True, g="now")]},
    "zr_server_half_rtt": {"c": [W(0, 10, g="pre")], "s": [W(1, 9000, True, g="now")]},
    # the server has a long response queued (window-limited over several round trips) while the client only sends
    # small packets: whatever address those come from has a small 3x budget until it is validated
    "download_chatty": {"c": [W(0, 100)] + [W(0, 60, g=("rx", 1, 4000 * i)) for i in range(1, 8)],
                        "s": [W(1, 40000, True, g=("rx", 0, 1))]},
    "server_close_early": {"c": [W(0, 10)], "s": [{"op": "close", "code": 0, "reason": "bye", "g": "now"}]},
    # resumption with early data: the first client datagram coalesces Initial + 0-RTT
    "zr_early_request": {"c": [W(0, 300, True, g="now")], "s": [W(0, 9000, True, g=("rx", 0, 1))]},
    "zr_coalesced_request": {"c": [W(0, 300, True, g="pre")], "s": [W(0, 9000, True, g=("rx", 0, 1))]},
    "zr_coalesced_bulk": {"c": [W(0, 5200, True, g="pre")], "s": [W(1, 9000, True, g="now")]},
    "zr_bulk_4600": {"c": [W(0, 4600, True, g="now")]},
    "zr_bulk_5200": {"c": [W(0, 5200, True, g="now")]},
    "zr_bulk_8000": {"c": [W(0, 8000, True, g="now")]},
    "migrate_then_bulk": {"c": [W(0, 2000), {"op": "ping", "uid": 2}, W(0, 6000, True)],
                          "s": [W(1, 9000, True)]},
}


def goal(w):
    c = w.ep["c"]
    return all(o["uid"] in c.pings_acked for o in c.ops if o["op"] == "ping") and c.op_i == len(c.ops)


def factory(sc):
    if "ops" in sc:
        kw = {"max_steps": 900, "horizon": 60.0, "deviations": tuple(sc.get("dev", ("drop",)))}
        return netsim.resolve_tickets(dict(sc["cfg"])), sc["ops"], [SizeMonitor()], kw, goal
    cfg = dict(sc["cfg"])
    if sc.get("resume"):
        base = {k: v for k, v in cfg.items() if k in ("version", "chain", "c_mds", "s_mds")}
        cfg["tickets"] = netsim.obtain_tickets(base)
    kw = {"max_steps": sc.get("max_steps", 300), "horizon": 60.0,
          "deviations": tuple(sc.get("dev", ("drop", "dup", "delay", "rebind", "late", "spoof", "hold")))}
    return cfg, SCRIPTS[sc["script"]], [SizeMonitor()], kw, goal


netcheck.register("c13", factory)


def sig_extra(sig, sid, devs):
    s = dict(sig)
    s["scenario_class"] = sid.split("|")[0]
    return s


def scenarios(tier, seed):
    out = {}
    mds_pairs_core = [(1200, 1200), (1250, 1200), (1200, 1350), (1350, 1350), (1472, 1500)]
    grid = [1200, 1201, 1250, 1350, 1472, 1500]
    chains = ["ed25519", "chain2", "bigchain"]
    # core: handshake under every mds pair of the core list x chain
    for (c, s) in mds_pairs_core:
        for ch in chains:
            out["hs|c%d_s%d|%s" % (c, s, ch)] = {"script": "hs_only", "cfg": {"c_mds": c, "s_mds": s, "chain": ch}}
    # the client's first flight gets through and then nothing for two seconds: the server spends what is left of its
    # 3x budget on probe timeouts - the last datagram that fits is smaller than a full one whenever three times the
    # client's flight is not a multiple of the server's datagram size
    for (c, s) in mds_pairs_core:
        for ch in chains:
            out["hs_silence|c%d_s%d|%s" % (c, s, ch)] = {
                "script": "hs_only", "cfg": {"c_mds": c, "s_mds": s, "chain": ch,
                                             "blackout_from": 0.005, "blackout_until": 2.0}}
    for ch in chains:
        out["echo|%s" % ch] = {"script": "echo", "cfg": {"chain": ch}}
    out["early|big"] = {"script": "early_data_like", "cfg": {"chain": "bigchain"}}
    out["srvclose|big"] = {"script": "server_close_early", "cfg": {"chain": "bigchain"}}
    out["migrate|ed"] = {"script": "migrate_then_bulk", "cfg": {"chain": "ed25519"}}
    out["zr|early_request"] = {"script": "zr_early_request", "cfg": {}, "resume": True}
    out["zr|coalesced_request"] = {"script": "zr_coalesced_request", "cfg": {}, "resume": True}
    out["zr|coalesced_bulk"] = {"script": "zr_coalesced_bulk", "cfg": {}, "resume": True}
    out["zr|coalesced_bulk_flightlost"] = {"script": "zr_coalesced_bulk", "cfg": {"c_drop_first": 6}, "resume": True}
    out["zr|early_request_lost2"] = {"script": "zr_early_request", "cfg": {"c_drop_first": 0}, "resume": True}
    for n in (4600, 5200, 8000):
        out["zr|bulk%d" % n] = {"script": "zr_bulk_%d" % n, "cfg": {}, "resume": True}
        out["zr|bulk%d_flightlost" % n] = {"script": "zr_bulk_%d" % n, "cfg": {"c_drop_first": 8}, "resume": True}
    out["hs|quantum"] = {"script": "hs_only", "cfg": {"quantum": True, "chain": "chain2"}}
    out["hs|v2"] = {"script": "hs_only", "cfg": {"version": V2, "chain": "bigchain"}}
    out["hs|retry"] = {"script": "hs_only", "cfg": {"retry": True, "chain": "bigchain"}}
    for ch in ("ed25519", "p256"):
        for sm in (1200, 1400):
            out["halfrtt|%s|s%d" % (ch, sm)] = {"script": "server_half_rtt", "cfg": {"chain": ch, "s_mds": sm}}
    out["halfrtt|resume"] = {"script": "zr_server_half_rtt", "cfg": {}, "resume": True}
    out["hs|compat"] = {"script": "hs_only", "cfg": {"version": V1, "c_supported": [V2, V1], "s_supported": [V2, V1], "chain": "bigchain"}}
    if tier == "thorough":
        for c in grid:
            for s in grid:
                k = "hs|c%d_s%d|bigchain" % (c, s)
                out.setdefault(k, {"script": "hs_only", "cfg": {"c_mds": c, "s_mds": s, "chain": "bigchain"}})
    else:
        # seed-selected slice of the thorough grid
        pairs = [(c, s) for c in grid for s in grid]
        for i, (c, s) in enumerate(pairs):
            if i % 9 == seed % 9:
                k = "hs|c%d_s%d|bigchain" % (c, s)
                out.setdefault(k, {"script": "hs_only", "cfg": {"c_mds": c, "s_mds": s, "chain": "bigchain"}})
    return out


def run(ctx):
    sc = scenarios(ctx.tier, ctx.seed)
    agg = netcheck.explore_scenarios(ctx, "c13", sc, 1, "d1", sig_extra=sig_extra)
    from vlib import cfgpairs

    netcheck.explore_scenarios(ctx, "c13", cfgpairs.scenarios(ctx.seed), 1, "config_pairs_d1", sig_extra=sig_extra)
    if ctx.tier == "thorough":
        core_sc = {k: v for k, v in sc.items() if not k.startswith("hs|c") or "bigchain" not in k}
        netcheck.explore_scenarios(ctx, "c13", core_sc, 2, "d2", sig_extra=sig_extra)
    else:
        keys = ["hs|c1250_s1200|ed25519", "srvclose|big", "hs|retry", "hs|c1200_s1350|chain2"]
        k = keys[ctx.seed % len(keys)]
        pick = {k + "|d2": dict(sc[k], dev=("drop", "delay", "rebind", "spoof"))}
        netcheck.explore_scenarios(ctx, "c13", pick, 2, "d2", sig_extra=sig_extra)
    # two address changes straddling one path validation: the PATH_RESPONSE for the second address may arrive
    # from a third one, which is then the active path and has NOT been validated
    mig = {"migrate_twice|ed": {"script": "migrate_then_bulk", "cfg": {"chain": "ed25519"}, "dev": ("rebind",)},
           "download_migrate_twice|ed": {"script": "download_chatty", "cfg": {"chain": "ed25519"}, "dev": ("rebind",),
                                         "max_steps": 600}}
    netcheck.explore_scenarios(ctx, "c13", mig, 2, "two_rebindings_d2", sig_extra=sig_extra)
    if len(agg["outcomes"]) < 3:
        raise core.HarnessError("vacuous exploration")
    ctx.cov["rule"] = (
        "deviation-bounded DFS over NetSim handshake/migration schedules (drop, dup, delay, rebind, "
        "spoofed-source replay, late timers) x max_datagram_size pairs x certificate chains; every "
        "datagram handed out is measured against max_datagram_size, the 1200-byte Initial rules and the "
        "3x per-address budget until a Handshake packet / matching PATH_RESPONSE from that address "
        "was delivered; distinct = distinct run outcomes")
    ctx.cov["exhaustive"] = not ctx.caps_hit
    ctx.cov["bounds"] = {"scenarios": len(sc), "deviation_bound": "1 (all), 2 (subset)"}
    ctx.assumptions += ["address validation is recognised from delivered Handshake packets and PATH_RESPONSEs "
                        "echoing a challenge sent to that address (as the property words it)"]


def replay(ctx, obj):
    v = netcheck.replay("c13", obj)
    if v:
        print("VIOLATION property=C13 replay=(replayed): %s" % v[1])
        return 1
    print("no violation on replay")
    return 0
