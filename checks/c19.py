"""C19 - the asyncio adapter stays consistent under any event-loop schedule.

World: vlib.vloop (a real asyncio.BaseEventLoop on virtual time; `select()` is the only
choice point) + in-memory datagram transports connecting a real `QuicServer` and one or
two real client `QuicConnectionProtocol`s.  Engine: explore.dfs_deviation over the
select() answers, deviation bound 1 (quick) / 2 (thorough), sharded over
scenario x first-deviation with core.pmap.

Oracle = the property text, nothing more:
 (1) streams   every StreamReader yields a prefix of what the peer's writer wrote, in
               order; EOF that is not caused by connection termination implies the
               complete bytes and a written EOF; where nobody closes and the idle timeout
               is far away the exchange must complete (the network is fair after <= d
               deviations and QUIC retransmits).
 (2) waiters   every wait_connected()/ping()/wait_closed() awaitable finishes, with
               success or ConnectionError; none is pending when nothing can happen any
               more (loop quiescent) or at the virtual-time horizon; any call of the
               loop's exception handler (double completion -> InvalidStateError in a
               callback, exception escaping a callback) is a violation.
 (3) routing   at every datagram dispatch to the QuicServer: if the destination CID is
               one the server-side connection has put on the wire (handed to the
               transport) and not seen retired, the routing table maps it to that
               connection's protocol; no key maps to a protocol whose
               ConnectionTerminated has been processed; with retry=True a connection
               object is created only for an Initial carrying a token the server sent
               in a Retry to that very source address.
"""
import asyncio
import gc
import logging
import time

from vlib import core, explore

LEVEL = "model_checking"

from vlib import certs, seams  # noqa: E402
from vlib.vloop import VLoop, VNet  # noqa: E402

from aioquic.asyncio.protocol import QuicConnectionProtocol  # noqa: E402
from aioquic.asyncio.server import QuicServer  # noqa: E402
from aioquic.quic import events as qevents  # noqa: E402
from aioquic.quic.configuration import QuicConfiguration  # noqa: E402
from aioquic.quic.connection import QuicConnection  # noqa: E402

SADDR = ("::1", 4433, 0, 0)
CADDRS = [("::1", 50001, 0, 0), ("::1", 50002, 0, 0)]
SPOOFS = [("::1", 6666, 0, 0), ("::2", 50001, 0, 0)]  # same host other port / other host same port
V2 = 0x6B3343CF
HORIZON_T = 600.0  # virtual seconds (idle timeout is 60 s at most)
HORIZON_IT = 20000  # loop iterations


# ------------------------------------------------------------------ wire peek
def peek(data):
    """Independent minimal header parse: (kind, dcid, token) with kind in
    initial/retry/long/short.  Hand-written from RFC 9000 17.2 / RFC 9369 3.2."""
    b0 = data[0]
    if not b0 & 0x80:
        return ("short", bytes(data[1:9]), None)
    try:
        ver = int.from_bytes(data[1:5], "big")
        dl = data[5]
        dcid = bytes(data[6 : 6 + dl])
        p = 6 + dl
        sl = data[p]
        p += 1 + sl
        t = (b0 & 0x30) >> 4
        if ver == V2:
            t = {1: 0, 2: 1, 3: 2, 0: 3}[t]
        if t == 0:
            first = data[p]
            n = 1 << (first >> 6)
            tl = int.from_bytes(data[p : p + n], "big") & ((1 << (8 * n - 2)) - 1)
            return ("initial", dcid, bytes(data[p + n : p + n + tl]))
        if t == 3:
            return ("retry", dcid, bytes(data[p:-16]))
        return ("long", dcid, None)
    except (IndexError, KeyError):
        return ("garbage", b"", None)


# ------------------------------------------------------------ observed protocol
def rekey_initial(data, new_dcid):
    """First (Initial) packet of a client datagram, re-protected with the Initial keys of `new_dcid`
    (RFC 9001 5.2: those keys are public) - token, source CID, packet number and payload unchanged."""
    from vlib import refquic

    pkts, _ = refquic.split_datagram(bytes(data), 8)
    if not pkts or pkts[0].type != "initial":
        return None
    p = pkts[0]
    cs, _ss = refquic.initial_secrets(p.version, p.dcid)
    res = refquic.unprotect(bytes(data), p, refquic.Keys("aes128", cs, p.version), 0)
    if res is None:
        return None
    _h, pn, pn_len, pt, _k = res
    cs2, _ = refquic.initial_secrets(p.version, new_dcid)
    out = refquic.build_long(p.version, "initial", new_dcid, p.scid, pn, pn_len, pt,
                             refquic.Keys("aes128", cs2, p.version), token=p.token or b"")
    return out + bytes(max(0, 1200 - len(out)))


class ObsProtocol(QuicConnectionProtocol):
    """QuicConnectionProtocol with the documented `quic_event_received` override used as
    the observation point (this is how applications subclass it)."""

    def __init__(self, quic, stream_handler=None):
        super().__init__(quic, stream_handler=stream_handler)
        self.v_name = "?"
        self.v_world = None
        self.v_events = []
        self.v_terminated = None
        self.v_handshake = False
        self.v_hook = None
        self.v_issued_seen = set()

    def quic_event_received(self, event):
        self.v_events.append(type(event).__name__)
        if isinstance(event, qevents.ConnectionIdIssued):
            self.v_issued_seen.add(event.connection_id)
        if isinstance(event, qevents.ConnectionTerminated):
            self.v_terminated = (int(event.error_code), event.reason_phrase)
            if self.v_world is not None and self.v_world.trace is not None:
                self.v_world.trace.append(
                    "      %s ConnectionTerminated code=%s reason=%r"
                    % (self.v_name, event.error_code, event.reason_phrase)
                )
        elif isinstance(event, qevents.HandshakeCompleted):
            self.v_handshake = True
        super().quic_event_received(event)
        if self.v_hook is not None:
            self.v_hook(self, event)


# ------------------------------------------------------------------ scenarios
A = b"The quick brown fox jumps over the lazy dog. "
BIG = bytes((i * 7 + 3) & 0xFF for i in range(2600))


def client(ops, wait=True, closer=None, payload_tag=b""):
    return {"ops": ops, "wait": wait, "closer": closer}


ECHO = [("open", 0), ("write", 0, A), ("write", 0, b"second write."), ("eof", 0), ("read", 0)]
ECHO_B = [("open", 0), ("write", 0, b"other client: " + A[::-1]), ("eof", 0), ("read", 0)]


def scenarios():
    S = {}

    def add(name, clients, server="echo", retry=False, spoof=False, complete=True,
            cidle=None, sidle=None, server_close_end=False, tier="quick", replay=False):
        S[name] = dict(name=name, clients=clients, server=server, retry=retry, spoof=spoof,
                       complete=complete, cidle=cidle, sidle=sidle,
                       server_close_end=server_close_end, tier=tier, replay=replay)

    # echo over one stream, write x2 + write_eof; wait_connected() a second time
    add("echo1", [client([("wait_connected",)] + ECHO + [("ping",)])], server_close_end=True)
    add("echo1_retry", [client(ECHO)], retry=True, spoof=True)
    # late copies of the client's handshake datagrams (same source address) may arrive at any later point,
    # also after the server has let go of the connection: each makes the server create state again
    add("echo1_late_copies", [client(ECHO)], replay=True, sidle=5.0, server_close_end=True)
    # two streams, writelines on the second one, reads in parallel
    # (create_stream() hands out the same stream ID until the first one was written to)
    add("echo2", [client([("open", 0), ("write", 0, A), ("open", 1), ("writelines", 1, [A, b"|", A[:9]]),
                          ("eof", 1), ("write", 0, b"tail"), ("eof", 0), ("read2", 0, 1)])])
    add("ping2", [client([("ping2",), ("ping",)])])
    # three pings with staggered, overlapping lifetimes (started less than / about / more than a round trip apart)
    add("ping_staggered", [client([("spawn_ping",), ("nap", (0.0005, 0.0, 0.0025)), ("spawn_ping",),
                                   ("nap", (0.0015, 0.0005, 0.003)), ("spawn_ping",), ("nap", (0.001, 0.0, 0.004)),
                                   ("spawn_ping",), ("join_pings",), ("ping",)])])
    add("cid", [client([("ping",), ("change_cid",), ("ping",)] + ECHO)])
    # several rotations in a row (each announces a retirement in a datagram of its own) and more later: with one
    # of those datagrams lost the server sees RETIRE_CONNECTION_ID frames out of order
    add("cid_burst", [client([("ping",), ("change_cid",), ("change_cid",), ("change_cid",), ("ping",),
                              ("change_cid",), ("ping",), ("change_cid",), ("ping",)] + ECHO)])
    add("cid_early", [client([("change_cid",), ("ping",), ("change_cid",)] + ECHO)])
    # the application's first ping travels with the client's Finished (wait_connected=False)
    add("nowait_cid", [client([("ping",), ("change_cid",), ("ping",)] + ECHO, wait=False)])
    # the application switches connection ID on its own schedule (10 ms after connecting)
    add("cid_timed", [client([("nap", (0.010, 0.0005, 0.002, 0.0)), ("change_cid",), ("ping",)] + ECHO)])
    # the application abandons a ping (asyncio.wait_for) before / around / after the round trip,
    # then carries on: the late acknowledgement must not disturb the adapter
    add("ping_abandoned", [client([("ping_timeout", (0.0005, 0.0015, 0.0035, 0.02, 5.0)), ("ping",)] + ECHO)],
        server_close_end=True)
    add("ping_abandoned_then_idle", [client([("ping_timeout", (0.0005, 0.0035, 5.0)), ("wait_closed",)])],
        cidle=1.5, complete=False)
    add("keyupd", [client([("ping",), ("key_update",), ("ping",)] + ECHO)])
    # connect(wait_connected=False): nothing is transmitted by connect(); the application
    # writes immediately; wait_connected() is awaited from a second task
    add("nowait", [client([("open", 0), ("write", 0, A), ("eof", 0), ("spawn_wait_connected",),
                           ("read", 0)], wait=False)])
    add("nowait_late", [client([("open", 0), ("write", 0, A), ("eof", 0), ("read", 0),
                                ("spawn_wait_connected",)], wait=False)])
    # idle timeout: nobody closes
    add("idle", [client([("ping",), ("open", 0), ("write", 0, A), ("wait_closed",)])],
        cidle=2.0, sidle=2.0, complete=False)
    add("idle_client", [client([("ping",), ("wait_closed",), ("ping",)])], cidle=1.5, complete=False)
    add("idle_client_wc", [client([("ping",), ("wait_closed",), ("wait_connected",)], wait=False)],
        cidle=1.5, complete=False)
    # the server side closes at various points; the client carries on with its script
    late = [("open", 0), ("write", 0, A), ("eof", 0), ("read", 0), ("ping",)]
    for beh in ("close_on_handshake", "close_on_stream", "close_after_read", "close_after_write"):
        add("srv_" + beh, [client(late)], server=beh, complete=False)
    # close() from a second client task while the main task is inside operation k
    cl = [("open", 0), ("write", 0, A), ("eof", 0), ("read", 0), ("ping",), ("ping2",)]
    for k in (-1, 3, 4, 5):
        add("cli_close_at%d" % k, [client(cl, closer=k)], complete=False)
    # a second exchange after the connection has gone quiet (deferred transmission must be
    # scheduled again: nothing else would send the data before the idle timeout)
    add("echo_twice", [client(ECHO + [("sleep", 0.5), ("open", 1), ("write", 1, A[::-1]), ("eof", 1),
                                      ("read", 1)])])
    add("srv_ping", [client(ECHO)], server="echo_ping", server_close_end=True)
    # two concurrent clients at distinct addresses
    add("two", [client(ECHO), client(ECHO_B)])
    add("two_retry", [client(ECHO), client([("ping",)] + ECHO_B)], retry=True, tier="thorough")
    add("two_cid", [client([("ping",), ("change_cid",)] + ECHO), client(ECHO_B + [("change_cid",), ("ping",)])],
        tier="thorough")
    add("echo_big", [client([("open", 0), ("write", 0, BIG), ("eof", 0), ("read", 0)])], tier="thorough")
    add("retry_cid", [client([("ping",), ("change_cid",), ("ping",)] + ECHO)], retry=True, spoof=True,
        tier="thorough")
    return S


SCENARIOS = scenarios()


# Seam: QuicRetryTokenHandler() generates an RSA-2048 key per server (25-100 ms of pure
# randomness).  One key per process is generated on first use instead; the token logic in
# aioquic/quic/retry.py is untouched (name patched, never the file).
class _RsaOnce:
    def __init__(self, real):
        self._real = real
        self._key = None

    def __getattr__(self, name):
        return getattr(self._real, name)

    def generate_private_key(self, public_exponent, key_size):
        if self._key is None:
            self._key = self._real.generate_private_key(public_exponent=public_exponent,
                                                        key_size=key_size)
        return self._key


def _install_rsa_seam():
    import aioquic.quic.retry as r

    if not isinstance(r.rsa, _RsaOnce):
        r.rsa = _RsaOnce(r.rsa)


_CFG = {}


def _server_material():
    if "srv" not in _CFG:
        c = QuicConfiguration(is_client=False)
        c.load_cert_chain(certs.path("ed25519.pem"), certs.path("ed25519.key"))
        _CFG["srv"] = (c.certificate, c.certificate_chain, c.private_key)
        with open(certs.path("ca.pem"), "rb") as f:
            _CFG["ca"] = f.read()
    return _CFG["srv"]


# ----------------------------------------------------------------------- world
class Client:
    def __init__(self, idx, spec):
        self.idx = idx
        self.name = "C%d" % idx
        self.addr = CADDRS[idx]
        self.spec = spec
        self.proto = None
        self.tr = None
        self.slots = {}
        self.at = None
        self.completed = False
        self.aborted = None
        self.error = None
        self.task = None
        self.closer_event = None


class World:
    def __init__(self, sc, chooser, trace=False):
        seams.install()
        self.sc = sc
        self.trace = [] if trace else None
        self.loop = VLoop(max_iterations=HORIZON_IT, max_time=HORIZON_T)
        self.net = VNet(self.loop, chooser)
        self.net.trace = self.trace
        self.net.on_send = self.on_send
        self.net.on_dispatch = self.on_dispatch
        self.net.after_dispatch = self.after_dispatch
        self.viol = []  # (sig, what)
        self._vkeys = set()
        self.ledger = []  # [who, op, result]
        self.streams = {}  # (endpoint name, sid) -> record
        self.tasks = []
        self.sprotos = []  # server-side protocols in creation order
        self.issued = {}  # proto -> set of CIDs handed to the transport
        self.tokens = {}  # retry token -> address it was sent to
        self.cur = None  # datagram being dispatched to the server
        self.clients = []
        self.server = None
        self.app_errors = []
        self.n_route_checks = 0
        self.n_token_checks = 0
        self.over = False

    # ------------------------------------------------------------ reporting
    def violate(self, monitor, what, **sig):
        key = (monitor,) + tuple(sorted(sig.items()))
        if key in self._vkeys:
            return
        self._vkeys.add(key)
        s = {"monitor": monitor}
        s.update(sig)
        self.viol.append((s, what))
        if self.trace is not None:
            self.trace.append("  !!! %s: %s" % (monitor, what))

    def note(self, text):
        if self.trace is not None:
            self.trace.append("      " + text)

    # ---------------------------------------------------------------- set-up
    def setup(self):
        sc = self.sc
        cert, chain, key = _server_material()
        scfg = QuicConfiguration(is_client=False, certificate=cert, certificate_chain=chain,
                                 private_key=key)
        if sc["sidle"] is not None:
            scfg.idle_timeout = sc["sidle"]
        self.server = QuicServer(configuration=scfg, create_protocol=self.create_server_protocol,
                                 stream_handler=self.server_stream_handler, retry=sc["retry"])
        self.server_tr = self.net.transport(SADDR, self.server, "S")
        self.server.connection_made(self.server_tr)
        for i, a in enumerate(SPOOFS):
            self.net.names[a] = "X%d" % i
        for idx, spec in enumerate(sc["clients"]):
            c = Client(idx, spec)
            ccfg = QuicConfiguration(is_client=True, server_name="localhost")
            ccfg.load_verify_locations(cadata=_CFG["ca"])
            if sc["cidle"] is not None:
                ccfg.idle_timeout = sc["cidle"]
            conn = QuicConnection(configuration=ccfg)
            c.proto = ObsProtocol(conn)
            c.proto.v_name = c.name
            c.proto.v_world = self
            c.tr = self.net.transport(c.addr, c.proto, c.name)
            c.proto.connection_made(c.tr)
            self.clients.append(c)
        for c in self.clients:
            c.task = self.loop.create_task(self.client_main(c))
            self.tasks.append(c.task)
        if sc["server_close_end"]:
            self.tasks.append(self.loop.create_task(self.server_closer()))

    async def server_closer(self):
        for c in self.clients:
            await c.task
        if self.sc.get("replay"):
            # the server keeps listening for a while after its clients are done (late copies may still arrive);
            # long enough for any connection state created meanwhile to reach its idle timeout
            await asyncio.sleep(3 * (self.sc.get("sidle") or 60.0))
            leftover = [p for p in self.sprotos if p.v_terminated is None
                        and any(q is p for q in self.server._protocols.values())]
            if leftover:
                self.violate(
                    "routing.entry_never_released",
                    "%d server connection(s) (%s) still have routing entries three idle periods after the last "
                    "datagram arrived" % (len(leftover), ", ".join(p.v_name for p in leftover)),
                    api="QuicServer", state="lingering",
                )
        self.note("server.close()")
        self.server.close()

    # ------------------------------------------------------------ the ledger
    async def aw(self, who, op, awaitable, proto=None):
        started = "after_termination" if proto is not None and proto.v_terminated is not None \
            else "before_termination"
        e = [who, op, "pending", started]
        self.ledger.append(e)
        try:
            await awaitable
        except ConnectionError:
            e[2] = "ConnectionError"
            self.note("%s %s -> ConnectionError" % (who, op))
            raise
        except asyncio.CancelledError:
            e[2] = "cancelled"
            raise
        except BaseException as ex:
            e[2] = "exc:" + type(ex).__name__
            self.note("%s %s -> %r" % (who, op, ex))
            raise
        else:
            e[2] = "ok"
            self.note("%s %s -> ok" % (who, op))

    async def aw_quiet(self, who, op, awaitable, proto=None):
        try:
            await self.aw(who, op, awaitable, proto)
        except ConnectionError:
            pass
        except Exception:
            pass

    # --------------------------------------------------------------- streams
    def rec(self, ep, sid):
        k = (ep, sid)
        r = self.streams.get(k)
        if r is None:
            r = self.streams[k] = {"w": bytearray(), "w_eof": False, "r": bytearray(),
                                   "r_eof": False, "r_live_eof": False, "reading": False}
        return r

    async def read_all(self, proto, reader, sid):
        r = self.rec(proto.v_name, sid)
        r["reading"] = True
        while True:
            chunk = await reader.read(65536)
            if not chunk:
                break
            r["r"] += chunk
        r["r_eof"] = True
        r["r_live_eof"] = proto.v_terminated is None
        self.note("%s stream %d read %dB + EOF%s" % (proto.v_name, sid, len(r["r"]),
                                                     "" if r["r_live_eof"] else " (terminated)"))
        return bytes(r["r"])

    def w_write(self, proto, writer, sid, data, lines=None):
        r = self.rec(proto.v_name, sid)
        if lines is not None:
            r["w"] += b"".join(lines)
            writer.writelines(lines)
        else:
            r["w"] += data
            writer.write(data)

    def w_eof(self, proto, writer, sid):
        self.rec(proto.v_name, sid)["w_eof"] = True
        writer.write_eof()

    # --------------------------------------------------------------- clients
    async def client_main(self, c):
        p = c.proto
        spec = c.spec
        if spec["closer"] is not None:
            c.closer_event = asyncio.Event()
            self.tasks.append(self.loop.create_task(self.closer(c)))
        try:
            try:
                p.connect(SADDR, transmit=spec["wait"])
                if spec["wait"]:
                    c.at = -1
                    if spec["closer"] == -1:
                        c.closer_event.set()
                    await self.aw(c.name, "wait_connected", p.wait_connected(), p)
                for idx, op in enumerate(spec["ops"]):
                    c.at = idx
                    if spec["closer"] == idx:
                        c.closer_event.set()
                    await self.do_op(c, op)
                c.completed = True
                self.note("%s script completed" % c.name)
            except ConnectionError:
                c.aborted = c.at
                self.note("%s script aborted by ConnectionError in op %s" % (c.name, c.at))
            except Exception as ex:  # noqa
                c.error = "%s@%s" % (type(ex).__name__, c.at)
                self.app_errors.append((c.name, c.error))
                self.note("%s script failed: %r" % (c.name, ex))
        finally:
            # what aioquic.asyncio.connect() does on leaving the context
            # (self.over: the run has ended and this coroutine is being destroyed)
            if not self.over:
                p.close()
                await self.aw_quiet(c.name, "wait_closed", p.wait_closed(), p)
                c.tr.close()

    async def closer(self, c):
        await c.closer_event.wait()
        self.note("%s close() from a second task while main task is in op %s" % (c.name, c.at))
        c.proto.close()

    async def do_op(self, c, op):
        p = c.proto
        k = op[0]
        if k == "wait_connected":
            await self.aw(c.name, "wait_connected", p.wait_connected(), p)
        elif k == "spawn_wait_connected":
            self.tasks.append(self.loop.create_task(
                self.aw_quiet(c.name, "wait_connected", p.wait_connected(), p)))
        elif k == "open":
            reader, writer = await p.create_stream()
            c.slots[op[1]] = (reader, writer, writer.get_extra_info("stream_id"))
        elif k == "write":
            reader, writer, sid = c.slots[op[1]]
            self.w_write(p, writer, sid, op[2])
        elif k == "writelines":
            reader, writer, sid = c.slots[op[1]]
            self.w_write(p, writer, sid, None, lines=op[2])
        elif k == "eof":
            reader, writer, sid = c.slots[op[1]]
            self.w_eof(p, writer, sid)
        elif k == "read":
            reader, writer, sid = c.slots[op[1]]
            await self.read_all(p, reader, sid)
        elif k == "read2":
            ra, _, sa = c.slots[op[1]]
            rb, _, sb = c.slots[op[2]]
            await asyncio.gather(self.read_all(p, ra, sa), self.read_all(p, rb, sb))
        elif k == "ping":
            await self.aw(c.name, "ping", p.ping(), p)
        elif k == "ping_timeout":
            # the application gives up on a ping on its own schedule (how long it waits is a choice
            # point); giving up is the application's decision - the adapter must cope with the
            # acknowledgement (or the termination) that arrives afterwards
            i = self.net.app_choice("%s ping timeout" % c.name, op[1])
            e = [c.name, "ping", "pending", "before_termination" if p.v_terminated is None else "after_termination"]
            self.ledger.append(e)
            try:
                await asyncio.wait_for(p.ping(), op[1][i])
                e[2] = "ok"
                self.note("%s ping -> ok (within %g s)" % (c.name, op[1][i]))
            except asyncio.TimeoutError:
                e[2] = "ok"   # abandoned by the application: not the adapter's verdict
                self.note("%s gave up on ping after %g s" % (c.name, op[1][i]))
                self.abandoned_pings = getattr(self, "abandoned_pings", 0) + 1
            except ConnectionError:
                e[2] = "ConnectionError"
                raise
        elif k == "spawn_ping":
            # a ping awaited by a task of its own: its lifetime overlaps whatever the script does next
            t = self.loop.create_task(self.aw_quiet(c.name, "ping", p.ping(), p))
            self.tasks.append(t)
            c.slots.setdefault("pings", []).append(t)
        elif k == "join_pings":
            for t in c.slots.get("pings", []):
                await t
        elif k == "ping2":
            res = await asyncio.gather(self.aw(c.name, "ping", p.ping(), p),
                                       self.aw(c.name, "ping", p.ping(), p),
                                       return_exceptions=True)
            for r in res:
                if isinstance(r, BaseException):
                    raise r
        elif k == "change_cid":
            p.change_connection_id()
        elif k == "key_update":
            p.request_key_update()
        elif k == "close":
            p.close()
        elif k == "sleep":
            await asyncio.sleep(op[1])
        elif k == "nap":
            # the application acts on its own schedule: the delay is a choice point
            i = self.net.app_choice("%s nap" % c.name, op[1])
            await asyncio.sleep(op[1][i])
        elif k == "wait_closed":
            await self.aw(c.name, "wait_closed", p.wait_closed(), p)
        else:
            raise core.HarnessError("unknown op %r" % (op,))

    # ---------------------------------------------------------------- server
    def create_server_protocol(self, connection, stream_handler=None):
        p = ObsProtocol(connection, stream_handler=stream_handler)
        p.v_name = "P%d" % len(self.sprotos)
        p.v_world = self
        d = self.cur
        p.v_origin = d.src if d is not None else None
        # one connection = one connection state: the connection ID a live state was created through (the destination
        # connection ID of its first datagram - with Retry the ID the server itself issued in the Retry packet) must keep
        # leading to that state; a later datagram from the same address to the same ID may not create another one.
        # (Same client source connection ID is NOT enough: a late copy of an old connection's datagram legitimately
        # starts a state of its own - thorough-tier false alarm of the first version of this monitor.)
        p.v_created_by = None
        if d is not None and d.data and d.data[0] & 0x80:
            try:
                dl = d.data[5]
                p.v_created_by = (tuple(d.src[:2]), bytes(d.data[6: 6 + dl]))
            except IndexError:
                pass
        if p.v_created_by is not None:
            for q in self.sprotos:
                if getattr(q, "v_created_by", None) == p.v_created_by and q.v_terminated is None:
                    self.violate(
                        "routing.second_state_for_live_connection",
                        "the server created a second connection state (%s) for a datagram from %s addressed to the very "
                        "connection ID through which the live state %s was created: that ID does not lead to the live "
                        "connection" % (p.v_name, self.net.names.get(d.src, d.src), q.v_name),
                        api="QuicServer.datagram_received", retry=bool(self.sc["retry"]))
                    break
        self.sprotos.append(p)
        self.issued[p] = set()
        self.note("server creates connection state %s for a datagram from %s"
                  % (p.v_name, self.net.names.get(p.v_origin, p.v_origin)))
        if self.sc["retry"]:
            self.n_token_checks += 1
            kind, dcid, token = peek(d.data) if d is not None else ("none", b"", None)
            to = self.tokens.get(token) if token else None
            if to is None or to[:2] != d.src[:2]:
                self.violate(
                    "retry.state_without_valid_token",
                    "retry=True: connection state created for an Initial from %s whose token %s"
                    % (self.net.names.get(d.src, "?"),
                       "was never issued by the server" if to is None else
                       "was issued to %s" % self.net.names.get(to, "?")),
                    api="QuicServer.datagram_received",
                    input="token:" + ("unknown" if to is None else "other_address"),
                )
        beh = self.sc["server"]
        if beh == "close_on_handshake":
            def hook(proto, event):
                if isinstance(event, qevents.HandshakeCompleted):
                    self.note("%s: server application calls close() (handshake completed)" % proto.v_name)
                    self.loop.call_soon(proto.close)
            p.v_hook = hook
        elif beh == "echo_ping":
            def hook(proto, event):
                if isinstance(event, qevents.HandshakeCompleted):
                    self.tasks.append(self.loop.create_task(
                        self.aw_quiet(proto.v_name, "ping", proto.ping(), proto)))
            p.v_hook = hook
        return p

    def server_stream_handler(self, reader, writer):
        proto = writer.transport.protocol
        sid = writer.get_extra_info("stream_id")
        beh = self.sc["server"]

        async def serve():
            try:
                if beh == "close_on_stream":
                    self.note("%s: server application calls close() (stream %d opened)" % (proto.v_name, sid))
                    proto.close()
                data = await self.read_all(proto, reader, sid)
                if beh == "close_after_read":
                    self.note("%s: server application calls close() (request read)" % proto.v_name)
                    proto.close()
                    return
                self.w_write(proto, writer, sid, bytes(reversed(data)))
                self.w_eof(proto, writer, sid)
                if beh == "close_after_write":
                    self.note("%s: server application calls close() (response written)" % proto.v_name)
                    proto.close()
            except Exception as ex:  # noqa
                self.app_errors.append((proto.v_name, "%s@serve" % type(ex).__name__))
                self.note("%s handler failed: %r" % (proto.v_name, ex))

        self.tasks.append(self.loop.create_task(serve()))

    # -------------------------------------------------------------- monitors
    def on_send(self, tr, d):
        if tr is self.server_tr:
            for p in self.sprotos:
                ids = self.issued[p]
                for c in p._quic._host_cids:
                    if c.was_sent:
                        ids.add(c.cid)
            kind, dcid, token = peek(d.data)
            if kind == "retry":
                self.tokens[token] = d.dst
                self.note("server sends Retry to %s" % self.net.names.get(d.dst, d.dst))
        elif self.sc.get("replay") and d.dst == SADDR:
            # a late copy of one of the client's own handshake datagrams, from the client's own address
            kind, dcid, token = peek(d.data)
            if kind == "initial" and len(d.data) >= 1200:
                n = sum(1 for sp in self.net.spoofable if sp[0].startswith("late_copy"))
                if n < 3:
                    self.net.spoofable.append(["late_copy_of_client_datagram_%d" % n, d.data, d.src, SADDR, 1, "when_idle"])
        elif self.sc["spoof"] and d.dst == SADDR:
            kind, dcid, token = peek(d.data)
            if kind == "initial":
                label = "initial_token" if token else "initial"
                have = {sp[0] for sp in self.net.spoofable}
                for i, a in enumerate(SPOOFS):
                    lab = "%s_from_X%d" % (label, i)
                    if lab not in have:
                        self.net.spoofable.append([lab, d.data, a, SADDR, 1])
                if token and "initial_token_rekeyed_from_X0" not in have:
                    # what an observer of the path can build: the same ClientHello and the same token in an
                    # Initial packet protected for ANOTHER destination connection ID (one the server does
                    # not route yet), sent from the observer's own address
                    rk = rekey_initial(d.data, b"\xdd" * 8)
                    if rk is not None:
                        self.net.spoofable.append(["initial_token_rekeyed_from_X0", rk, SPOOFS[0], SADDR, 1])

    def on_dispatch(self, tr, d):
        if tr is not self.server_tr:
            return
        self.cur = d
        kind, dcid, token = peek(d.data)
        table = self.server._protocols
        for p in self.sprotos:
            if p.v_terminated is not None:
                continue
            if dcid in self.issued[p]:
                seqs = [c.sequence_number for c in p._quic._host_cids if c.cid == dcid]
                if not seqs:
                    continue  # the connection has seen it retired
                self.n_route_checks += 1
                got = table.get(dcid)
                if got is not p:
                    self.violate(
                        "routing.unreachable",
                        "datagram addressed to connection ID seq=%d, which live server connection %s "
                        "has sent to the peer and not seen retired, %s%s"
                        % (seqs[0], p.v_name,
                           "has no routing entry (datagram dropped)" if got is None
                           else "is routed to another protocol",
                           "" if seqs[0] == 0 or dcid in p.v_issued_seen else
                           " - its ConnectionIdIssued event is still queued: NEW_CONNECTION_ID was "
                           "written by transmit() after _process_events()",
                           ),
                        api="QuicServer.datagram_received",
                        input="cid_seq:%s" % ("0" if seqs[0] == 0 else "n"),
                        event="n/a" if seqs[0] == 0 else
                        ("processed" if dcid in p.v_issued_seen else "not_yet_processed"),
                    )
        self.check_stale("dispatch")

    def after_dispatch(self, tr, d):
        if tr is self.server_tr:
            self.cur = None

    def check_stale(self, when):
        n = 0
        for cid, proto in self.server._protocols.items():
            if getattr(proto, "v_terminated", None) is not None:
                n += 1
        if n:
            self.violate(
                "routing.stale_entry",
                "%d routing key(s) still map to a connection whose ConnectionTerminated was processed (%s)"
                % (n, when),
                api="QuicServer._connection_terminated",
            )

    # ------------------------------------------------------------------- run
    def run(self):
        with self.loop.running():
            self.setup()
        reason = self.loop.run()
        return self.finish(reason)

    def finish(self, reason):
        sc = self.sc
        self.over = True
        self.check_stale("end of run")
        if reason == "quiescent":
            # nothing is in flight and no timer is armed any more: whatever the server still routes now, it
            # routes for ever
            immortal = [p for p in self.sprotos if p.v_terminated is None
                        and any(q is p for q in self.server._protocols.values())]
            if immortal:
                self.violate(
                    "routing.entry_never_released",
                    "%d server connection(s) (%s) still have routing entries although nothing is in flight and no timer "
                    "is armed: that state can never be released" % (len(immortal), ", ".join(p.v_name for p in immortal)),
                    api="QuicServer", state="no_timer",
                )
        # (2) waiters
        for who, op, res, started in self.ledger:
            if res == "pending":
                if reason in ("iterations", "spin"):
                    continue
                protos = [c.proto for c in self.clients if c.name == who] + \
                         [p for p in self.sprotos if p.v_name == who]
                term = bool(protos) and protos[0].v_terminated is not None
                self.violate(
                    "waiter.never_finishes",
                    "%s: %s() called %s is still pending when %s (own connection %s)"
                    % (who, op, started.replace("_", " "),
                       "nothing can happen any more" if reason == "quiescent"
                       else "the %.0f s horizon is reached" % HORIZON_T,
                       "terminated" if term else "NOT terminated"),
                    api=op, state="terminated" if term else "live", started=started,
                )
            elif res not in ("ok", "ConnectionError"):
                self.violate(
                    "waiter.bad_result",
                    "%s: %s() finished with %s (neither success nor ConnectionError)" % (who, op, res),
                    api=op, exc=res,
                )
        # (1) streams
        by_addr = {c.addr: c for c in self.clients}
        for p in self.sprotos:
            c = by_addr.get(getattr(p, "v_origin", None))
            for (ep, sid), r in list(self.streams.items()):
                if ep != p.v_name:
                    continue
                cr = self.streams.get((c.name, sid)) if c is not None else None
                self.check_pair("client->server", sid, cr, r, c.name if c else "?", p.v_name)
                self.check_pair("server->client", sid, r, cr, p.v_name, c.name if c else "?")
        paired = set()
        for p in self.sprotos:
            c = by_addr.get(getattr(p, "v_origin", None))
            if c is not None:
                for (ep, sid) in self.streams:
                    if ep == p.v_name:
                        paired.add((c.name, sid))
        for (ep, sid), r in self.streams.items():
            if ep.startswith("C") and (ep, sid) not in paired and r["r"]:
                self.violate("stream.bytes", "%s stream %d read %d bytes nobody wrote"
                             % (ep, sid, len(r["r"])), direction="server->client")
        for (ep, sid), r in self.streams.items():
            if r["reading"] and not r["r_eof"] and reason not in ("iterations", "spin"):
                self.violate(
                    "stream.no_eof",
                    "%s: reader of stream %d never reached EOF (%s)" % (ep, sid, reason),
                    side="client" if ep.startswith("C") else "server",
                )
        if sc["complete"] and reason not in ("iterations", "spin"):
            for c in self.clients:
                if not c.completed:
                    self.violate(
                        "liveness.incomplete",
                        "%s: script did not complete (stopped in op %s: %s) although nobody closed, "
                        "the idle timeout is 60 s and the network is fair after the deviations"
                        % (c.name, c.at, c.spec["ops"][c.at][0] if c.at is not None and c.at >= 0 else "connect"),
                        op=c.spec["ops"][c.at][0] if c.at is not None and c.at >= 0 else "connect",
                    )
            for (ep, sid), r in self.streams.items():
                if r["reading"] and r["r_eof"] and not r["r_live_eof"]:
                    self.violate(
                        "liveness.incomplete",
                        "%s: stream %d was cut short by connection termination after %d bytes although "
                        "nobody closed, the idle timeout is 60 s and the network is fair after the deviations"
                        % (ep, sid, len(r["r"])),
                        op="read_truncated",
                    )
        # (4) exception handler, read after gc.collect()
        log = self.loop.finish()
        forgiven = getattr(self, "abandoned_pings", 0)
        for recd in log:
            if forgiven and recd["kind"] == "never_retrieved" and recd["exc"] == "ConnectionError":
                # the application abandoned that ping itself (wait_for timed out): the waiter did finish,
                # with a connection error, and nobody is left to retrieve it - asyncio's reminder about an
                # unretrieved exception is not a verdict on the adapter
                forgiven -= 1
                continue
            self.violate(
                "loop.exception_handler",
                "loop exception handler called: %s %s in %s (via %s): %s"
                % (recd["kind"], recd["exc"], recd["where"], recd["entry"], recd["detail"]),
                kind=recd["kind"], exc=recd["exc"], where=recd["where"], entry=recd["entry"],
            )
        obs = (
            reason,
            tuple(tuple(e) for e in self.ledger),
            tuple(sorted((ep, sid, len(r["w"]), r["w_eof"], len(r["r"]), r["r_eof"], r["r_live_eof"])
                         for (ep, sid), r in self.streams.items())),
            tuple((c.name, c.completed, c.aborted, c.error, c.proto.v_terminated) for c in self.clients),
            tuple((p.v_name, p.v_terminated, p.v_handshake) for p in self.sprotos),
            tuple(self.app_errors),
            tuple(sorted(s["monitor"] for s, _ in self.viol)),
        )
        return obs

    def check_pair(self, direction, sid, wrec, rrec, wname, rname):
        """rrec = reader side record, wrec = writer side record (may be None)."""
        if rrec is None:
            return
        written = bytes(wrec["w"]) if wrec is not None else b""
        got = bytes(rrec["r"])
        if got != written[: len(got)]:
            n = 0
            while n < len(got) and n < len(written) and got[n] == written[n]:
                n += 1
            self.violate(
                "stream.bytes",
                "%s stream %d: %s read %d bytes that are not a prefix of the %d bytes %s wrote "
                "(first difference at offset %d)" % (direction, sid, rname, len(got), len(written), wname, n),
                direction=direction,
            )
        elif rrec["r_eof"] and rrec["r_live_eof"]:
            w_eof = wrec["w_eof"] if wrec is not None else False
            if len(got) != len(written) or not w_eof:
                self.violate(
                    "stream.early_eof",
                    "%s stream %d: %s saw EOF on a live connection after %d of %d bytes (writer EOF=%r)"
                    % (direction, sid, rname, len(got), len(written), w_eof),
                    direction=direction,
                )


# -------------------------------------------------------------------- running
_GC = [False]
logging.getLogger("quic").setLevel(logging.CRITICAL)  # connection errors are observed as events


def warm():
    """One-time, per-process initialisation; run() calls it in the parent BEFORE the pools
    are forked: certificates, the retry RSA key, lazily imported crypto back-ends, then
    gc.freeze() so that the workers do not copy the whole heap on their first collection."""
    if _GC[0]:
        return
    _GC[0] = True
    _server_material()
    _install_rsa_seam()
    import aioquic.quic.retry as r

    r.rsa.generate_private_key(public_exponent=65537, key_size=2048)
    for name in ("echo1", "echo1_retry"):
        execute(name, explore.Chooser([]))
    gc.collect()
    gc.freeze()
    gc.disable()


def execute(sc_name, chooser, trace=False):
    if not _GC[0]:
        warm()
    w = World(SCENARIOS[sc_name], chooser, trace=trace)
    try:
        obs = w.run()
    finally:
        if not w.loop.is_closed():
            w.loop.close()
    res = {
        "obs": obs,
        "viol": w.viol,
        "hs": w.net.hs,
        "devs": list(w.net.deviations),
        "iters": w.loop.iterations,
        "stutters": w.loop.stutters,
        "vtime": round(w.loop.elapsed(), 6),
        "route_checks": w.n_route_checks,
        "token_checks": w.n_token_checks,
        "reason": obs[0],
        "sent": w.net.n_sent,
    }
    if trace:
        res["trace"] = w.trace
    return res


def run_choices(sc_name, choices, trace=False):
    ch = explore.Chooser(list(choices))
    r = execute(sc_name, ch, trace=trace)
    if len(ch.ex.choices) < len(choices):
        raise core.HarnessError("replay of %s ended before its choice list was consumed" % sc_name)
    r["choices"] = list(ch.ex.choices)
    r["points"] = list(ch.ex.points)
    return r


def trim(choices):
    c = list(choices)
    while c and c[-1] == 0:
        c.pop()
    return c


class Shard:
    """One dfs_deviation over a root prefix, with prefix-replay divergence checking."""

    def __init__(self, sc_name, bound, root, expect):
        self.sc = sc_name
        self.bound = bound
        self.root = list(root)
        self.expect = expect  # (index, hash, menu size) from the parent execution
        self.frames = []  # (prefix_len, choices, hs, points)
        self.outcomes = {}
        self.viol = {}
        self.count = 0
        self.points = 0
        self.route_checks = 0
        self.token_checks = 0
        self.caps = 0
        self.capped = []
        self.stutter_execs = 0
        self.max_iters = 0
        self.devkinds = {}
        self.last = None

    def run(self, chooser):
        r = execute(self.sc, chooser)
        self.last = r
        return r

    def on_execution(self, ex):
        r = ex.result
        prefix_len = len(self._prefix_of(ex))
        hs = r["hs"]
        # ---- divergence check against the execution this one was branched from
        if prefix_len:
            i = prefix_len - 1
            if self.frames or self.expect is not None:
                while self.frames:
                    f = self.frames[-1]
                    if f[0] <= i and len(f[1]) > i and f[1][:i] == ex.choices[:i]:
                        break
                    self.frames.pop()
                if self.frames:
                    f = self.frames[-1]
                    want = (f[2][i], f[3][i][0])
                else:
                    want = (self.expect[1], self.expect[2]) if self.expect and self.expect[0] == i else None
                if want is not None and (len(hs) <= i or (hs[i], ex.points[i][0]) != want):
                    raise core.HarnessError(
                        "prefix replay diverged in %s at choice point %d of %r (harness nondeterminism)"
                        % (self.sc, i, ex.choices[: i + 1])
                    )
        self.frames.append((prefix_len, list(ex.choices), hs, ex.points))
        # ---- bookkeeping
        self.count += 1
        self.points += len(ex.choices)
        self.route_checks += r["route_checks"]
        self.token_checks += r["token_checks"]
        self.max_iters = max(self.max_iters, r["iters"])
        if r["stutters"]:
            self.stutter_execs += 1
        if r["reason"] in ("iterations", "spin"):
            self.caps += 1
            if len(self.capped) < 3:
                self.capped.append(trim(ex.choices))
        k = core.stable_hash(r["obs"])
        if k not in self.outcomes:
            self.outcomes[k] = trim(ex.choices)
        dk = "+".join(sorted(r["devs"])) or "none"
        self.devkinds[dk] = self.devkinds.get(dk, 0) + 1
        for sig, what in r["viol"]:
            vk = core.stable_hash(sig)
            cand = (len(r["devs"]), len(trim(ex.choices)), trim(ex.choices), sig, what, sorted(r["devs"]))
            old = self.viol.get(vk)
            if old is None or cand[:3] < old[:3]:
                self.viol[vk] = cand

    def _prefix_of(self, ex):
        # the explorer's prefix is the part of the choice list up to and including the last
        # non-default choice (everything after it was answered 0 by the Chooser)
        return trim(ex.choices)

    def summary(self):
        return {
            "sc": self.sc,
            "count": self.count,
            "points": self.points,
            "outcomes": self.outcomes,
            "viol": list(self.viol.values()),
            "route_checks": self.route_checks,
            "token_checks": self.token_checks,
            "caps": self.caps,
            "capped": self.capped,
            "stutter_execs": self.stutter_execs,
            "max_iters": self.max_iters,
            "devkinds": self.devkinds,
        }


def shard_job(item):
    sc_name, bound, root, expect = item
    sh = Shard(sc_name, bound, root, expect)
    explore.dfs_deviation(sh.run, bound, sh.on_execution, root_prefix=root)
    return sh.summary()


def shard_jobs(items):
    return [shard_job(it) for it in items]


def baseline_job(sc_name):
    """The default (deviation-free) execution of a scenario, run twice."""
    a = run_choices(sc_name, [])
    b = run_choices(sc_name, [])
    if a["hs"] != b["hs"] or a["obs"] != b["obs"]:
        raise core.HarnessError("scenario %s: two default runs differ (harness nondeterminism)" % sc_name)
    return {k: a[k] for k in ("obs", "viol", "hs", "devs", "iters", "vtime", "route_checks",
                              "token_checks", "reason", "choices", "points", "sent")}


def confirm_job(item):
    """Replay a reported violation twice from its choice list; both must agree."""
    sc_name, choices, vk = item
    a = run_choices(sc_name, choices)
    b = run_choices(sc_name, choices)
    if a["obs"] != b["obs"] or a["hs"] != b["hs"]:
        raise core.HarnessError("violation replay of %s %r is not reproducible" % (sc_name, choices))
    sigs = {core.stable_hash(s): (s, w) for s, w in a["viol"]}
    if vk not in sigs:
        raise core.HarnessError("violation %s of %s %r vanished on replay" % (vk, sc_name, choices))
    # minimise: turn deviations back into the default answer while the signature stays
    best = list(choices)
    changed = True
    while changed:
        changed = False
        for i, c in enumerate(best):
            if c == 0:
                continue
            trial = trim(best[:i] + [0] + best[i + 1:])
            try:
                t = run_choices(sc_name, trial)
            except core.HarnessError:
                continue
            if vk in {core.stable_hash(s) for s, _ in t["viol"]}:
                best = trial
                changed = True
                break
    fin = run_choices(sc_name, best)
    s, w = {core.stable_hash(s): (s, w) for s, w in fin["viol"]}[vk]
    return {"sc": sc_name, "choices": best, "sig": s, "what": w, "devs": sorted(fin["devs"]),
            "obs_hash": core.stable_hash(fin["obs"])}


CORE_KEYS = ("monitor", "api", "exc", "where", "entry", "kind", "state", "direction", "input", "op", "side",
             "started", "event")


CORE_QUICK_D2 = ("echo1", "cid_timed", "echo1_retry", "cli_close_at4", "srv_close_after_write")
CORE_THOROUGH_D3 = ("echo1", "cid_timed", "cli_close_at4", "nowait", "cid")


def plan(tier, seed, only=None):
    """scenario -> deviation bound."""
    out = {}
    if tier == "quick":
        for n, sc in SCENARIOS.items():
            if sc["tier"] == "quick":
                out[n] = 2 if n in CORE_QUICK_D2 else 1
        # one seed-selected slice of the thorough space
        extra = [n for n, sc in SCENARIOS.items() if sc["tier"] == "thorough"]
        if extra:
            out[extra[seed % len(extra)]] = 1
    else:
        for n in SCENARIOS:
            out[n] = 3 if n in CORE_THOROUGH_D3 else 2
    if only:
        out = {n: b for n, b in out.items() if n in only}
    return out


def run(ctx):
    t0 = time.time()
    warm()
    bounds = plan(ctx.tier, ctx.seed, ctx.only_parts)
    names = list(bounds)
    bound = max(bounds.values()) if bounds else 0
    bases = [baseline_job(n) for n in names]  # 2 x ~5 ms each: cheaper than a pool
    base = dict(zip(names, bases))
    items = []
    for n in names:
        b = base[n]
        for i, (cnt, costs) in enumerate(b["points"]):
            for alt in range(1, cnt):
                c = costs[alt]
                if c is None or c > bounds[n]:
                    continue
                items.append((n, bounds[n], b["choices"][:i] + [alt], (i, b["hs"][i], cnt)))
    # big subtrees first (higher bound, earlier first deviation), single executions in chunks
    big = sorted((it for it in items if it[1] > 1), key=lambda it: (-it[1], len(it[2])))
    small = [it for it in items if it[1] <= 1]
    chunks = [[it] for it in big] + [small[i: i + 10] for i in range(0, len(small), 10)]
    res = [s for part in core.pmap(shard_jobs, chunks) for s in part]
    per = {}
    for n in names:
        b = base[n]
        per[n] = {"count": 1, "points": len(b["choices"]), "outcomes": {core.stable_hash(b["obs"]): []},
                  "viol": {}, "route_checks": b["route_checks"], "token_checks": b["token_checks"],
                  "caps": 1 if b["reason"] in ("iterations", "spin") else 0, "devkinds": {"none": 1},
                  "default_points": len(b["choices"]), "default_iters": b["iters"],
                  "default_datagrams": b["sent"], "max_iters": b["iters"]}
        for sig, what in b["viol"]:
            per[n]["viol"][core.stable_hash(sig)] = (0, 0, [], sig, what, [])
    for s in res:
        p = per[s["sc"]]
        p["count"] += s["count"]
        p["points"] += s["points"]
        p["route_checks"] += s["route_checks"]
        p["token_checks"] += s["token_checks"]
        p["caps"] += s["caps"]
        p.setdefault("capped", []).extend(s.get("capped", []))
        p["stutter_execs"] = p.get("stutter_execs", 0) + s["stutter_execs"]
        p["max_iters"] = max(p["max_iters"], s["max_iters"])
        for k, v in s["outcomes"].items():
            p["outcomes"].setdefault(k, v)
        for k, v in s["devkinds"].items():
            p["devkinds"][k] = p["devkinds"].get(k, 0) + v
        for cand in s["viol"]:
            vk = core.stable_hash(cand[3])
            old = p["viol"].get(vk)
            if old is None or tuple(cand[:3]) < tuple(old[:3]):
                p["viol"][vk] = tuple(cand)
    total = 0
    all_outcomes = set()
    for n in names:
        p = per[n]
        total += p["count"]
        all_outcomes |= set((n, k) for k in p["outcomes"])
        ctx.part(
            n,
            executions=p["count"],
            evaluations=p["count"],
            transitions=p["points"],
            states=len(p["outcomes"]),
            distinct_nontrivial=len(p["outcomes"]),
            choice_points_default=p["default_points"],
            loop_iterations_default=p["default_iters"],
            datagrams_default=p["default_datagrams"],
            routing_checks=p["route_checks"],
            token_checks=p["token_checks"],
            iteration_caps=p["caps"],
            executions_with_clock_nudges=p.get("stutter_execs", 0),
            deviation_kinds=dict(sorted(p["devkinds"].items())),
            bound=bounds[n],
        )
        if p["caps"]:
            ctx.cap("%s: %d executions hit the %d-iteration cap / spin guard, e.g. choices %r"
                    % (n, p["caps"], HORIZON_IT, sorted(p.get("capped", []), key=len)[:2]))
    # ---- violations: simplest per structural core signature, replayed twice, minimised
    best = {}
    for n in names:
        for vk, cand in per[n]["viol"].items():
            sig = cand[3]
            ck = tuple((k, sig.get(k)) for k in CORE_KEYS)
            rank = (cand[0], cand[1], names.index(n))
            if ck not in best or rank < best[ck][0]:
                best[ck] = (rank, n, cand, vk)
    todo = [(n, cand[2], vk) for (_, n, cand, vk) in best.values()]
    confirmed = core.pmap(confirm_job, todo) if todo else []
    confirmed.sort(key=lambda c: (len(c["devs"]), len(c["choices"]), c["sc"]))
    for c in confirmed:
        sig = dict(c["sig"], scenario=c["sc"], deviations="+".join(c["devs"]) or "none")
        ctx.violation(sig, "[%s, deviations: %s] %s" % (c["sc"], sig["deviations"], c["what"]),
                      {"scenario": c["sc"], "choices": c["choices"], "bound": bounds[c["sc"]],
                       "obs_hash": c["obs_hash"]})
    # vacuity guard (only meaningful when nothing was reported)
    varied = sum(1 for n in names if len(per[n]["outcomes"]) >= 2)
    if not ctx.violations and total > 50 and (
            len(all_outcomes) < 3 or (len(names) >= 4 and varied * 3 < len(names))):
        raise core.HarnessError("vacuous exploration: %d outcomes, %d of %d scenarios with more than one"
                                % (len(all_outcomes), varied, len(names)))
    for n in names[:3]:
        b = base[n]
        ctx.sample({"scenario": n, "default_run": {"choice_points": len(b["choices"]),
                                                   "loop_iterations": b["iters"],
                                                   "virtual_seconds": b["vtime"],
                                                   "ledger": [list(e) for e in b["obs"][1]]}})
    ctx.cov["rule"] = (
        "every execution of each scenario on the real asyncio adapter (BaseEventLoop._run_once on "
        "virtual time) whose select() answers deviate at most d time(s) (d per scenario, max %d) from 'deliver the oldest "
        "datagram now, else sleep to the next timer'; deviations: reorder, drop, duplicate, delay "
        "past ready callbacks / next timer, two sockets readable at once, Initial replayed from "
        "another address (retry scenarios); fair network afterwards until quiescence" % bound
    )
    ctx.cov["exhaustive"] = not ctx.caps_hit
    ctx.cov["bounds"] = {"deviation_bound": dict(bounds), "scenarios": len(names),
                         "horizon_virtual_s": HORIZON_T, "horizon_iterations": HORIZON_IT}
    ctx.cov["executions"] = total
    ctx.cov["distinct_outcomes"] = len(all_outcomes)
    ctx.assumptions += [
        "timers fire exactly at their deadline (loop.time() == when); later firing is not explored",
        "at most one datagram is read per socket per loop iteration (as _SelectorDatagramTransport does)",
        "a datagram that arrives while select() blocks takes 1 ms of virtual time",
        "after 20 consecutive select(0) calls the virtual clock is nudged by 1,2,4.. ns (a real loop "
        "iteration takes time; otherwise a deadline equal to now up to float rounding spins forever); "
        "1 ms of nudging without leaving the zero-timeout run is reported as a spin (cap)",
        "AssertionError 'already awaiting connected' (two concurrent wait_connected()) is an API precondition",
        "wait_connected() first called after the handshake completed resolves at termination (letter of the property)",
    ]
    print("[C19] executions=%d distinct_outcomes=%d max_bound=%d scenarios=%d wall=%.1fs"
          % (total, len(all_outcomes), bound, len(names), time.time() - t0))


def replay(ctx, obj):
    rp = obj["replay"]
    sc = rp["scenario"]
    print("replaying scenario %s with choices %r" % (sc, rp["choices"]))
    a = run_choices(sc, rp["choices"], trace=True)
    for line in a["trace"]:
        print(line)
    print("stop reason:", a["reason"], " loop iterations:", a["iters"], " virtual time: %.3fs" % a["vtime"])
    print("ledger:")
    for e in a["obs"][1]:
        print("   ", e)
    b = run_choices(sc, rp["choices"])
    if a["obs"] != b["obs"]:
        print("HARNESS-ERROR: two replays differ")
        return 2
    if a["viol"]:
        for sig, what in a["viol"]:
            print("VIOLATION property=C19 replay=(replayed) %s: %s" % (sig["monitor"], what))
        return 1
    print("no violation on replay")
    return 0
