"""C10 - stream send/receive halves and RangeSet against reference models.

Engine: explicit-state BFS to closure over the REAL objects (deep-copied per
transition), alphabet = every frame/reset/write/get_frame/delivery within a
length bound L.  Oracle: offset->byte map (receiver), pending/outstanding/acked
sets (sender), set of ints (RangeSet).
"""
import copy

from vlib import core, explore

LEVEL = "model_checking"

from aioquic.quic.packet import QuicStreamFrame  # noqa: E402
from aioquic.quic.packet_builder import QuicDeliveryState  # noqa: E402
from aioquic.quic.rangeset import RangeSet  # noqa: E402
from aioquic.quic.stream import (  # noqa: E402
    FinalSizeError,
    QuicStreamReceiver,
    QuicStreamSender,
)


def content(L):
    return bytes((i + 1) & 0xFF for i in range(L + 2))


def ranges_of(rs):
    return tuple((r.start, r.stop) for r in rs)


# ============================================================== receiver
class RModel:
    __slots__ = ("received", "final", "delivered", "reset")

    def __init__(self):
        self.received = frozenset()
        self.final = None
        self.delivered = 0
        self.reset = False

    def key(self):
        return (self.received, self.final, self.delivered, self.reset)


def r_key(rx, m):
    return (
        rx._buffer_start,
        bytes(rx._buffer),
        ranges_of(rx._ranges),
        rx._final_size,
        rx.is_finished,
        rx.highest_offset,
        m.key(),
    )


_R_L = [4]


def r_alphabet(L):
    ops = []
    for ln in range(0, L + 2):
        for off in range(0, L + 2 - ln):
            for fin in (False, True):
                ops.append(("frame", off, ln, fin))
    for final in range(0, L + 2):
        ops.append(("reset", final))
    return ops


def r_expand(node):
    key, (rx, m), hist = node
    L = _R_L[0]
    data = content(L)
    out = []
    for op in r_alphabet(L):
        rx2 = copy.deepcopy(rx)
        m2 = RModel()
        m2.received, m2.final, m2.delivered, m2.reset = m.received, m.final, m.delivered, m.reset
        viol = None
        outcome = None
        if op[0] == "frame":
            _, off, ln, fin = op
            end = off + ln
            expect_err = m.final is not None and (end > m.final or (fin and end != m.final))
            try:
                ev = rx2.handle_frame(QuicStreamFrame(data=data[off:end], fin=fin, offset=off))
                raised = None
            except FinalSizeError:
                raised = "FinalSizeError"
            except Exception as e:  # noqa
                raised = type(e).__name__
            if expect_err:
                if raised != "FinalSizeError":
                    viol = (
                        {"monitor": "rx.final_size_error_missing", "op": "frame"},
                        "receiver accepted frame %r against fixed final size %r (raised=%r)"
                        % (op, m.final, raised),
                    )
                out.append((op, None, None, viol, "err"))
                continue
            if raised is not None:
                viol = (
                    {"monitor": "rx.unexpected_exception", "exc": raised, "op": "frame"},
                    "receiver raised %s for legal frame %r (final=%r)" % (raised, op, m.final),
                )
                out.append((op, None, None, viol, "exc"))
                continue
            if fin:
                m2.final = end
            m2.received = m.received | frozenset(range(off, end))
            d = m.delivered
            while d in m2.received:
                d += 1
            m2.delivered = d
            new = data[m.delivered : d]
            got = b"" if ev is None else ev.data
            done_before = m.final is not None and m.delivered == m.final
            done_now = m2.final is not None and m2.delivered == m2.final
            if bytes(got) != new:
                viol = (
                    {"monitor": "rx.bytes", "op": "frame"},
                    "delivered bytes %r, reference %r after %r" % (bytes(got), new, op),
                )
            elif not m.reset:
                if ev is not None and ev.end_stream and not done_now:
                    viol = (
                        {"monitor": "rx.early_end", "op": "frame"},
                        "end_stream signalled with delivered=%d final=%r" % (m2.delivered, m2.final),
                    )
                elif done_now and not done_before and (ev is None or not ev.end_stream):
                    viol = (
                        {"monitor": "rx.missing_end", "op": "frame"},
                        "stream complete (final=%r) but no end_stream after %r" % (m2.final, op),
                    )
                elif rx2.is_finished != done_now:
                    viol = (
                        {"monitor": "rx.is_finished", "op": "frame"},
                        "is_finished=%r but delivered=%d final=%r"
                        % (rx2.is_finished, m2.delivered, m2.final),
                    )
            outcome = (len(new), done_now)
        else:
            final = op[1]
            expect_err = m.final is not None and final != m.final
            try:
                ev = rx2.handle_reset(final_size=final, error_code=7)
                raised = None
            except FinalSizeError:
                raised = "FinalSizeError"
            except Exception as e:  # noqa
                raised = type(e).__name__
            if expect_err:
                if raised != "FinalSizeError":
                    viol = (
                        {"monitor": "rx.final_size_error_missing", "op": "reset"},
                        "receiver accepted reset final=%d against fixed final %r" % (final, m.final),
                    )
                out.append((op, None, None, viol, "err"))
                continue
            if raised is not None:
                viol = (
                    {"monitor": "rx.unexpected_exception", "exc": raised, "op": "reset"},
                    "receiver raised %s for legal reset %r" % (raised, op),
                )
                out.append((op, None, None, viol, "exc"))
                continue
            m2.final = final
            m2.reset = True
            if ev is None or ev.error_code != 7 or not rx2.is_finished:
                viol = (
                    {"monitor": "rx.reset_event", "op": "reset"},
                    "reset accepted but event=%r is_finished=%r" % (ev, rx2.is_finished),
                )
            outcome = ("reset", final)
        if viol is not None:
            out.append((op, None, None, viol, outcome))
        else:
            out.append((op, r_key(rx2, m2), (rx2, m2), None, outcome))
    return out


def run_receiver(ctx, L, workers):
    _R_L[0] = L
    rx = QuicStreamReceiver(stream_id=0, readable=True)
    m = RModel()
    res = explore.bfs([(r_key(rx, m), (rx, m), [])], r_expand, workers=workers,
                      name="c10.rx.L%d" % L)
    return res


# ================================================================ sender
class SModel:
    __slots__ = ("W", "fin", "pending", "outstanding", "acked", "fin_pending", "fin_acked",
                 "max_end", "reset", "reset_out", "reset_acked", "reset_pending")

    def __init__(self):
        self.W = 0
        self.fin = False
        self.pending = frozenset()
        self.outstanding = ()  # tuple of (start, stop, fin)
        self.acked = frozenset()
        self.fin_pending = False
        self.fin_acked = False
        self.max_end = 0
        self.reset = None
        self.reset_out = 0
        self.reset_acked = False
        self.reset_pending = False

    def clone(self):
        n = SModel()
        for k in SModel.__slots__:
            setattr(n, k, getattr(self, k))
        return n

    def key(self):
        return tuple(getattr(self, k) for k in SModel.__slots__)


def s_key(tx, m):
    return (
        bytes(tx._buffer),
        tx._buffer_start,
        tx._buffer_stop,
        tx._buffer_fin,
        ranges_of(tx._pending),
        tx._pending_eof,
        ranges_of(tx._acked),
        tx._acked_fin,
        tx.highest_offset,
        tx.is_finished,
        tx.reset_pending,
        tx._reset_error_code,
        tx.buffer_is_empty,
        m.key(),
    )


_S_CFG = {"L": 3, "max_out": 99}


def s_ops(m, L, max_out):
    ops = []
    if not m.fin and m.reset is None:
        for n in range(0, L - m.W + 1):
            for fin in (False, True):
                ops.append(("write", n, fin))
    if m.reset is None and len(m.outstanding) < max_out:
        for ms in range(0, L + 2):
            ops.append(("get", ms, None))
            for mo in range(0, L + 2):
                ops.append(("get", ms, mo))
    for i, f in enumerate(m.outstanding):
        ops.append(("deliver", i, "ACKED"))
        ops.append(("deliver", i, "LOST"))
    ops.append(("reset", 7 if m.reset is None else 9))
    if m.reset_pending:
        ops.append(("get_reset",))
    if m.reset_out:
        ops.append(("reset_delivery", "ACKED"))
        ops.append(("reset_delivery", "LOST"))
    return ops


def s_check_state(tx, m, data):
    """State invariants; returns violation or None."""
    # completion
    all_acked = m.fin and len(m.acked) == m.W and m.fin_acked
    if m.reset is None:
        if tx.is_finished != all_acked:
            return (
                {"monitor": "tx.is_finished"},
                "is_finished=%r but written=%d acked=%d fin_written=%r fin_acked=%r"
                % (tx.is_finished, m.W, len(m.acked), m.fin, m.fin_acked),
            )
    else:
        if m.reset_acked and not tx.is_finished:
            return ({"monitor": "tx.is_finished_reset"}, "reset acknowledged but not finished")
        if tx.is_finished and not (m.reset_acked or all_acked):
            return (
                {"monitor": "tx.is_finished_reset"},
                "finished although neither reset nor data+FIN acknowledged",
            )
        if not tx.buffer_is_empty:
            return (
                {"monitor": "tx.offer_after_reset"},
                "buffer_is_empty is False after reset (data would be offered)",
            )
        if m.reset_pending != tx.reset_pending:
            return (
                {"monitor": "tx.reset_pending"},
                "reset_pending=%r, reference %r" % (tx.reset_pending, m.reset_pending),
            )
        return None
    if tx.highest_offset != m.max_end:
        return (
            {"monitor": "tx.highest_offset"},
            "highest_offset=%d but max end offered=%d" % (tx.highest_offset, m.max_end),
        )
    # gate used by the connection
    if (m.pending or m.fin_pending) and tx.buffer_is_empty:
        return (
            {"monitor": "tx.gate"},
            "bytes %r / FIN %r pending but buffer_is_empty is True"
            % (sorted(m.pending), m.fin_pending),
        )
    # drain equivalence: unacknowledged, un-outstanding bytes and FIN are (re)offered
    t = copy.deepcopy(tx)
    got = set()
    fin_seen = False
    for _ in range(m.W + 4):
        f = t.get_frame(1 << 20, None)
        if f is None:
            break
        end = f.offset + len(f.data)
        if bytes(f.data) != data[f.offset : end] or end > m.W:
            return (
                {"monitor": "tx.frame_bytes", "op": "drain"},
                "drained frame off=%d data=%r differs from written bytes" % (f.offset, bytes(f.data)),
            )
        got |= set(range(f.offset, end))
        if f.fin:
            if not (m.fin and end == m.W):
                return ({"monitor": "tx.fin_position", "op": "drain"}, "FIN at %d, written end %d fin=%r" % (end, m.W, m.fin))
            fin_seen = True
    else:
        return ({"monitor": "tx.drain_nonterminating"}, "get_frame keeps returning frames")
    if not set(m.pending) <= got:
        return (
            {"monitor": "tx.reoffer_bytes"},
            "pending bytes %r not re-offered (drain gave %r)" % (sorted(m.pending), sorted(got)),
        )
    if m.fin_pending and not fin_seen:
        return ({"monitor": "tx.reoffer_fin"}, "FIN pending but never offered by drain")
    return None


def s_expand(node):
    key, (tx, m), hist = node
    L, max_out = _S_CFG["L"], _S_CFG["max_out"]
    data = content(L)
    out = []
    for op in s_ops(m, L, max_out):
        t = copy.deepcopy(tx)
        n = m.clone()
        viol = None
        outcome = op[0]
        try:
            if op[0] == "write":
                _, cnt, fin = op
                t.write(data[m.W : m.W + cnt], end_stream=fin)
                n.pending = m.pending | frozenset(range(m.W, m.W + cnt))
                n.W = m.W + cnt
                if fin:
                    n.fin = True
                    n.fin_pending = True
            elif op[0] == "get":
                _, ms, mo = op
                f = t.get_frame(ms, mo)
                if f is None:
                    outcome = "get:none"
                else:
                    end = f.offset + len(f.data)
                    outcome = ("get", len(f.data), f.fin)
                    if bytes(f.data) != data[f.offset : end] or end > m.W:
                        viol = (
                            {"monitor": "tx.frame_bytes", "op": "get"},
                            "frame off=%d data=%r is not the written bytes" % (f.offset, bytes(f.data)),
                        )
                    elif len(f.data) > ms:
                        viol = ({"monitor": "tx.max_size"}, "frame of %d bytes exceeds max_size %d" % (len(f.data), ms))
                    elif mo is not None and end > mo and len(f.data) > 0:
                        viol = ({"monitor": "tx.max_offset"}, "frame end %d exceeds max_offset %d" % (end, mo))
                    elif f.fin and not (m.fin and end == m.W):
                        viol = ({"monitor": "tx.fin_position", "op": "get"}, "FIN at %d but written end %d fin=%r" % (end, m.W, m.fin))
                    else:
                        rng = frozenset(range(f.offset, end))
                        n.pending = m.pending - rng
                        n.outstanding = tuple(sorted(m.outstanding + ((f.offset, end, bool(f.fin)),)))
                        if f.fin:
                            n.fin_pending = False
                        if end > n.max_end:
                            n.max_end = end
            elif op[0] == "deliver":
                _, i, st = op
                fr = m.outstanding[i]
                n.outstanding = m.outstanding[:i] + m.outstanding[i + 1 :]
                t.on_data_delivery(QuicDeliveryState[st], fr[0], fr[1], fr[2])
                if m.reset is None:
                    rng = frozenset(range(fr[0], fr[1]))
                    if st == "ACKED":
                        n.acked = m.acked | rng
                        # bytes acknowledged by any copy never need re-offering
                        n.pending = n.pending - rng
                        if fr[2]:
                            n.fin_acked = True
                            n.fin_pending = False
                    else:
                        n.pending = n.pending | (rng - m.acked)
                        if fr[2] and not m.fin_acked:
                            n.fin_pending = True
                else:
                    if st == "ACKED":
                        n.acked = m.acked | frozenset(range(fr[0], fr[1]))
                        if fr[2]:
                            n.fin_acked = True
            elif op[0] == "reset":
                t.reset(op[1])
                if m.reset is None:
                    n.reset = op[1]
                    n.reset_pending = True
            elif op[0] == "get_reset":
                f = t.get_reset_frame()
                if f.error_code != m.reset or f.final_size != t.highest_offset or f.final_size < m.max_end:
                    viol = (
                        {"monitor": "tx.reset_frame"},
                        "reset frame %r; reference code=%r highest=%d" % (f, m.reset, m.max_end),
                    )
                n.reset_pending = False
                n.reset_out = m.reset_out + 1
            elif op[0] == "reset_delivery":
                t.on_reset_delivery(QuicDeliveryState[op[1]])
                n.reset_out = m.reset_out - 1
                if op[1] == "ACKED":
                    n.reset_acked = True
                else:
                    n.reset_pending = True
        except Exception as e:  # noqa
            viol = (
                {"monitor": "tx.unexpected_exception", "exc": type(e).__name__, "op": op[0]},
                "sender raised %s: %s on %r" % (type(e).__name__, e, op),
            )
        if viol is None:
            viol = s_check_state(t, n, data)
        if viol is not None:
            out.append((op, None, None, viol, outcome))
        else:
            out.append((op, s_key(t, n), (t, n), None, outcome))
    return out


def run_sender(ctx, L, max_out, workers, max_depth=None):
    _S_CFG["L"] = L
    _S_CFG["max_out"] = max_out
    tx = QuicStreamSender(stream_id=0, writable=True)
    m = SModel()
    return explore.bfs([(s_key(tx, m), (tx, m), [])], s_expand, workers=workers,
                       name="c10.tx.L%d.%d" % (L, max_out), max_depth=max_depth)


# ============================================================== RangeSet
_RS_U = [8]


def canon_ranges(s):
    out = []
    for v in sorted(s):
        if out and out[-1][1] == v:
            out[-1][1] = v + 1
        else:
            out.append([v, v + 1])
    return tuple((a, b) for a, b in out)


def rs_expand(node):
    key, (rs, s), hist = node
    U = _RS_U[0]
    out = []
    ops = []
    for a in range(U):
        for b in range(a + 1, U + 1):
            ops.append(("add", a, b))
            ops.append(("subtract", a, b))
    for a in range(U):
        ops.append(("add1", a))
    if s:
        ops.append(("shift",))
    for op in ops:
        r = copy.deepcopy(rs)
        viol = None
        try:
            if op[0] == "add":
                r.add(op[1], op[2])
                s2 = s | frozenset(range(op[1], op[2]))
            elif op[0] == "add1":
                r.add(op[1])
                s2 = s | {op[1]}
            elif op[0] == "subtract":
                r.subtract(op[1], op[2])
                s2 = s - frozenset(range(op[1], op[2]))
            else:
                first = r.shift()
                exp = canon_ranges(s)[0]
                s2 = s - frozenset(range(exp[0], exp[1]))
                if (first.start, first.stop) != exp:
                    viol = ({"monitor": "rangeset.shift"}, "shift gave %r expected %r" % (first, exp))
        except Exception as e:  # noqa
            viol = ({"monitor": "rangeset.exception", "exc": type(e).__name__}, "%r raised %s" % (op, e))
            out.append((op, None, None, viol, None))
            continue
        got = ranges_of(r)
        exp = canon_ranges(s2)
        if viol is None and got != exp:
            viol = (
                {"monitor": "rangeset.normal_form", "op": op[0]},
                "after %r on %r: ranges %r, reference %r" % (op, canon_ranges(s), got, exp),
            )
        if viol is None:
            for v in range(-1, U + 1):
                if (v in r) != (v in s2):
                    viol = ({"monitor": "rangeset.contains"}, "%d in %r disagrees" % (v, got))
            if s2 and (r.bounds().start, r.bounds().stop) != (min(s2), max(s2) + 1):
                viol = ({"monitor": "rangeset.bounds"}, "bounds %r for %r" % (r.bounds(), got))
            if len(r) != len(exp):
                viol = ({"monitor": "rangeset.len"}, "len")
        if viol is not None:
            out.append((op, None, None, viol, None))
        else:
            out.append((op, (got, s2), (r, s2), None, len(exp)))
    return out


def run_rangeset(ctx, U):
    _RS_U[0] = U
    rs = RangeSet()
    return explore.bfs([(((), frozenset()), (rs, frozenset()), [])], rs_expand, workers=1,
                       name="c10.rs.%d" % U)


# ================================================================== main
def _report(ctx, name, res, replay_base):
    ctx.part(
        name,
        states=res.states,
        transitions=res.transitions,
        max_depth=res.max_depth,
        closure=res.closed,
        outcomes=len(res.outcomes),
        distinct_nontrivial=res.states,
        evaluations=res.transitions,
    )
    if len(res.outcomes) < 3:
        raise core.HarnessError("%s: vacuous exploration (%d outcomes)" % (name, len(res.outcomes)))
    for h in res.samples[:2]:
        ctx.sample({"part": name, "history": h})
    seen = set()
    for sig, what, hist in res.violations:
        sig = dict(sig, part=name)
        k = core.stable_hash(sig)
        if k in seen:
            continue  # BFS order: first is shortest
        seen.add(k)
        ctx.violation(sig, what, dict(replay_base, part=name, history=hist))
    if not res.closed:
        ctx.cap("%s: closure not reached (%s)" % (name, getattr(res, "capped", None)))


def run(ctx):
    w = core.NCPU
    if ctx.tier == "quick":
        rL, sL, sOut, U = 5, 4, 99, 7
    else:
        rL, sL, sOut, U = 8, 5, 99, 9
    res = run_rangeset(ctx, U)
    _report(ctx, "rangeset", res, {"U": U})
    res = run_receiver(ctx, rL, w)
    _report(ctx, "receiver", res, {"L": rL})
    res = run_sender(ctx, sL, sOut, w)
    _report(ctx, "sender", res, {"L": sL, "max_out": sOut})
    if ctx.tier == "thorough":
        res = run_sender(ctx, 6, 2, w)
        _report(ctx, "sender_L6_out2", res, {"L": 6, "max_out": 2})
    ctx.cov["rule"] = (
        "explicit-state BFS to closure over real QuicStreamReceiver/QuicStreamSender/RangeSet "
        "objects; alphabet = every (offset,len,fin) frame and reset within length bound L, every "
        "write/get_frame(max_size,max_offset)/delivery/reset; a state is distinct by "
        "(implementation fields, reference-model fields)"
    )
    ctx.cov["exhaustive"] = not ctx.caps_hit
    ctx.cov["bounds"] = {"receiver_L": rL, "sender_L": sL, "rangeset_universe": U}
    ctx.assumptions += [
        "frame contents are the true stream bytes (conflicting overlaps are out of scope)",
        "each emitted frame is reported delivered at most once (C08 decides that upstream)",
        "get_frame is not called after reset (the connection gates on buffer_is_empty)",
    ]


def replay(ctx, obj):
    rp = obj["replay"]
    part = rp["part"]
    hist = [tuple(x) for x in rp["history"]]
    print("replaying %s history of %d ops" % (part, len(hist)))
    if part == "rangeset":
        _RS_U[0] = rp["U"]
        node = (None, (RangeSet(), frozenset()), [])
        expand = rs_expand
    elif part == "receiver":
        _R_L[0] = rp["L"]
        node = (None, (QuicStreamReceiver(stream_id=0, readable=True), RModel()), [])
        expand = r_expand
    else:
        _S_CFG["L"] = rp["L"]
        _S_CFG["max_out"] = rp["max_out"]
        node = (None, (QuicStreamSender(stream_id=0, writable=True), SModel()), [])
        expand = s_expand
    for step in hist:
        found = False
        for label, key, payload, viol, outcome in expand(node):
            if tuple(label) == step:
                found = True
                print("  ", label, "->", outcome, "VIOLATION: %s" % viol[1] if viol else "")
                if viol:
                    print("VIOLATION property=C10 replay=(replayed)")
                    return 1
                node = (key, payload, [])
                break
        if not found:
            print("step %r not enabled" % (step,))
            return 2
    print("no violation on replay")
    return 0
